#!/bin/sh
# ./check --replay <file>: re-runs a replay.
#  *.txt      : prints the failed obligation and the solver output recorded for it
#  *_test.go  : runs the in-package test against /repo with `go test -overlay` (first line: // replay-pkg: <pkg dir>)
F="$(realpath "$1")"
case "$F" in
  *_test.go)
    PKG=$(sed -n 's|^// replay-pkg: *||p' "$F" | head -1)
    TESTS=$(sed -n 's/^func \(Test[A-Za-z0-9_]*\)(.*/\1/p' "$F" | paste -sd'|')
    exec sh "$(dirname "$0")/replay/run_overlay.sh" "$PKG" "$F" -run "^($TESTS)\$" ;;
  *) cat "$F" ;;
esac
