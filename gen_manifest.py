#!/usr/bin/env python3
"""Regenerates /verif/MANIFEST.json from props/*.json and the claims table below."""
import json, os, subprocess, glob
V = os.path.dirname(os.path.abspath(__file__))
props = {}
for l in open(os.path.join(V, 'properties.jsonl')):
    p = json.loads(l); props[p['id']] = p
claims = json.load(open(os.path.join(V, 'claims.json')))
baseline = json.load(open('/root/.vp/BASELINE.json'))['cmd'] if os.path.exists('/root/.vp/BASELINE.json') else ""
try:
    commits = subprocess.check_output(['git', '-C', '/repo', 'log', '--format=%H %s'], text=True).splitlines()
    hooks = [c.split()[0] for c in commits if ' verif hook:' in ' ' + c.split(' ', 1)[1]]
except Exception:
    hooks = []
checks, na = [], []
for pid in sorted(props):
    c = claims.get(pid, {})
    if c.get('claim'):
        checks.append({
            "property_id": pid,
            "quick_cmd": "./check %s" % pid,
            "thorough_cmd": "./check %s --thorough" % pid,
            "evidence_file": "/verif/evidence/%s.json" % pid,
            "replay_cmd_template": "./check --replay {path}",
            "engine": "govc",
            "level_claimed": {"category": "proof", "text": c['text'], "design_ref": c.get('design_ref', 'DESIGN.md section 3, ' + pid)},
            "level_note": c['note'],
            "technique": c.get('technique', "contract-based deductive verification: weakest-precondition style VCs generated from the Go AST of the real functions against comment contracts, discharged by z3/cvc5"),
        })
    else:
        na.append({"property_id": pid, "reason": c.get('reason', 'no contract within reach of the engine yet')})
m = {
    "version": 1,
    "setup_cmd": "cd /verif && ./build.sh",
    "hooks": {"guard": "verif (Go build tag)", "enable": "contracts live in <pkg>/zz_contracts_verif.go (//go:build verif, comment-only); govc reads them from /repo's working tree; nothing is compiled into the product",
              "baseline_off_cmd": baseline, "source_commits": hooks, "add_only": True},
    "engines": [{"name": "govc", "path": "/verif/govc", "serves_properties": [c['property_id'] for c in checks],
                 "kind_free_text": "self-written verification-condition generator for a subset of Go (go/packages + go/ast + go/types), contracts as structured comments, SMT portfolio z3 5.1 / cvc5 1.0 / z3 4.8"}],
    "checks": checks,
    "not_applicable": na,
    "notes": "All checks are contract proofs of the real functions in /repo (see DESIGN.md). Bounded stand-ins, where used, are reported under coverage.bounded_checks and never counted as obligations.",
}
json.dump(m, open(os.path.join(V, 'MANIFEST.json'), 'w'), indent=1)
print("MANIFEST.json: %d checks, %d not_applicable" % (len(checks), len(na)))
