#!/bin/bash
# Runs the quick check of every claimed property on the unchanged tree; prints one line each. Exit 1 if any alarms.
# It is the authoring-time step before every commit of /verif, so it also refreshes contracts.lock.json (the names,
# types and ordinals of the locals the contracts mention, used to re-bind them after a rename): GOVC_WRITE_LOCK=1.
cd "$(dirname "$0")"; rc=0
export GOVC_WRITE_LOCK=1
for p in $(python3 -c "import json;print(' '.join(c['property_id'] for c in json.load(open('MANIFEST.json'))['checks']))"); do
  out=$(./check $p 2>&1); r=$?
  echo "$out" | grep -E "obligations discharged" | sed "s/^/[exit $r] /"
  if [ $r -ne 0 ]; then rc=1; echo "$out" | grep VIOLATION | head -3; fi
done
exit $rc
