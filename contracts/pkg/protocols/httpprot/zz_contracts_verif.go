//go:build verif

package httpprot

// Contracts used by callers in other packages (C04 ...). Comment-only file.

/*@
ufunc realIPOf(r *Request) string
ufunc headerOf(r *Request) int

func (r *Request) RealIP() (ip string)
  trusted
  pure
  ensures ip == realIPOf(r)

func (r *Request) HTTPHeader() (h http.Header)
  trusted
  pure
  ensures ref(h) == headerOf(r)
@*/
