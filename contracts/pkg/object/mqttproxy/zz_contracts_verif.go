//go:build verif

package mqttproxy

// Contracts for the MQTT properties (C14-C17). Comment-only file, compiled only with -tags verif.

/*@
// ---- C15: delivery to every eligible subscriber ----
ghost var published set[int]       // sessions on which publish was called
ghost var gDom set[string]       // the subscriber set found for the topic (captured at the call)
ghost var gQoS mmap[string]int   // and the QoS of each subscriber

func (mgr *TopicManager) findSubscribers(topic string) (subs map[string]byte, err error)
  trusted
  flag allocates
  ensures subs == nil || fresh(subs)

func (s *Session) publish(span *model.SpanContext, topic string, payload []byte, qos byte)
  trusted
  requires s != nil
  modifies published
  ensures published == old(store(published, ref(s), true))

pred clientsWF(b *Broker) := forall c string :: c in b.clients ==> b.clients[c] != nil && b.clients[c].session != nil

func (b *Broker) sendMsgToClient(span *model.SpanContext, topic string, payload []byte, qos byte)
  requires b != nil && b.topicMgr != nil && clientsWF(b)
  modifies published, gDom, gQoS
  ensures every-eligible-connected-subscriber-gets-it: forall c string :: gDom[c] && gQoS[c] >= qos && c in b.clients ==> published[ref(b.clients[c].session)]
  ensures nobody-else: forall s int :: published[s] && !old(published[s]) ==> (exists c string :: gDom[c] && gQoS[c] >= qos && c in b.clients && s == ref(b.clients[c].session))
  invariant[1] captured: gDom == dom$1 && (forall c string :: dom$1[c] ==> gQoS[c] == subscribers[c])
  invariant[1] visited-served: forall k int :: 0 <= k && k < idx$1 && gQoS[keys$1[k]] >= qos && keys$1[k] in b.clients ==> published[ref(b.clients[keys$1[k]].session)]
  invariant[1] only-visited: forall s int :: published[s] && !old(published[s]) ==> (exists k int :: 0 <= k && k < idx$1 && gQoS[keys$1[k]] >= qos && keys$1[k] in b.clients && s == ref(b.clients[keys$1[k]].session))
  ghost at call[1] findSubscribers: gDom := domOf(subs)
  ghost at call[1] findSubscribers: gQoS := valsOf(subs)

// QoS1 bookkeeping: an acknowledgement removes exactly that packet id and nothing else (in
// particular the resend queue is untouched: ids that are still pending stay scheduled for resend)
func (s *Session) puback(p *packets.PubackPacket)
  requires s != nil && p != nil && s.pending != nil
  modifies entries(s.pending)
  ensures acked-removed: !(p.MessageID in s.pending)
  ensures others-kept: forall k uint16 :: k != p.MessageID ==> ((k in s.pending) <==> old(k in s.pending)) && s.pending[k] == old(s.pending[k])

// ---- C14: topic filter syntax (MQTT 3.1.1 section 4.7.1): a wildcard occupies an entire level and '#' is the last character ----
lemma slashes-mono@n: forall s string; i int; n int :: 0 <= i && i <= n ==> slashes(s, i) <= slashes(s, n)
pred wildAt(t string, k int) := t[k] == 43 || t[k] == 35
pred ruleAt(t string, k int) := (t[k] == 35 ==> k == len(t) - 1) && (wildAt(t, k) ==> (k == 0 || t[k - 1] == 47) && (k == len(t) - 1 || t[k + 1] == 47))
pred wellFormed(t string) := forall k int :: 0 <= k && k < len(t) ==> ruleAt(t, k)

func splitTopic(topic string) (levels []string, ok bool)
  flag ascii
  flag paths=split
  ensures accepts-exactly-well-formed-filters: ok <==> wellFormed(topic)
  ensures rejected-has-no-levels: !ok ==> levels == nil
  ensures one-level-per-separator: ok ==> len(levels) == slashes(topic, len(topic)) + 1
  invariant[1] position: 0 <= levelStart && levelStart <= i && i <= len(topic) && (levelStart == 0 || topic[levelStart - 1] == 47)
  invariant[1] count: levelsLoc == slashes(topic, i) && len(levels) == slashes(topic, len(topic)) + 1 && levels != nil
  invariant[1] current-level-has-no-separator: forall k int :: levelStart <= k && k < i ==> topic[k] != 47
  invariant[1] flag: wildCardFlag <==> (exists k int :: levelStart <= k && k < i && wildAt(topic, k))
  invariant[1] hash-only-last: forall k int :: 0 <= k && k < i && topic[k] == 35 ==> k == len(topic) - 1
  invariant[1] finished-levels-well-formed: forall k int :: 0 <= k && k < levelStart ==> ruleAt(topic, k)
@*/
