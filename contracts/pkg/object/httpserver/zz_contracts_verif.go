//go:build verif

package httpserver

// Contracts for properties C01 / C05 / C12 (routing). Comment-only file, compiled only with -tags verif.

/*@
pred full(fs *ipfilter.IPFilters) := cap(fs.filters) == len(fs.filters)

func newIPFilterChain(parentIPFilters *ipfilter.IPFilters, childSpec *ipfilter.Spec) (chain *ipfilter.IPFilters)
  requires parent-wf: parentIPFilters != nil ==> ipfilter.wfFilters(parentIPFilters) && full(parentIPFilters)
  ensures empty-chain-is-nil: (parentIPFilters == nil || len(parentIPFilters.filters) == 0) && childSpec == nil ==> chain == nil
  ensures nonempty: chain != nil ==> fresh(chain) && ipfilter.wfFilters(chain) && full(chain) && len(chain.filters) >= 1
  ensures parent-prefix: chain != nil && parentIPFilters != nil ==> len(chain.filters) == len(parentIPFilters.filters) + (childSpec != nil ? 1 : 0) && (forall k int :: 0 <= k && k < len(parentIPFilters.filters) ==> chain.filters[k] == parentIPFilters.filters[k])
  ensures no-parent: chain != nil && parentIPFilters == nil ==> len(chain.filters) == 1
  ensures child-last: chain != nil && childSpec != nil ==> chain.filters[len(chain.filters) - 1].spec == childSpec && fresh(chain.filters[len(chain.filters) - 1])
  ensures chain-exists: childSpec != nil || (parentIPFilters != nil && len(parentIPFilters.filters) > 0) ==> chain != nil

func newIPFilter(spec *ipfilter.Spec) (f *ipfilter.IPFilter)
  ensures spec == nil ==> f == nil
  ensures spec != nil ==> fresh(f) && ipfilter.wfFilter(f) && f.spec == spec

func allowIP(ipFilter *ipfilter.IPFilter, ip string) (ok bool)
  requires ipFilter != nil ==> ipfilter.wfFilter(ipFilter)
  ensures ok == (ipFilter == nil || ipfilter.allows(ipFilter, ip))

// ---- C01: which entry matches a request (written from the property statement) ----
pred hostName(q *httpprot.Request) := hasPort(q.Request.Host) ? hostOnly(q.Request.Host) : q.Request.Host
pred hostOK(r *muxRule, q *httpprot.Request) := (r.host == "" && r.hostRE == nil) || (r.host != "" && r.host == hostName(q)) || (r.hostRE != nil && reMatch(ref(r.hostRE), hostName(q)))
pred pathOK(p *MuxPath, q *httpprot.Request) := (p.path == "" && p.pathPrefix == "" && p.pathRE == nil) || (p.path != "" && p.path == q.Request.URL.Path) || (p.pathPrefix != "" && hasPrefix(q.Request.URL.Path, p.pathPrefix)) || (p.pathRE != nil && reMatch(ref(p.pathRE), q.Request.URL.Path))
pred methodOK(p *MuxPath, q *httpprot.Request) := len(p.methods) == 0 || stringtool.inSlice(q.Request.Method, p.methods)
pred hdrVal(h *Header, q *httpprot.Request) := headerGet(ref(q.Request.Header), h.Key)
pred hdrAllOK(h *Header, q *httpprot.Request) := (len(h.Values) == 0 || stringtool.inSlice(hdrVal(h, q), h.Values)) && (h.Regexp == "" || reMatch(ref(h.headerRE), hdrVal(h, q)))
pred hdrAnyOK(h *Header, q *httpprot.Request) := stringtool.inSlice(hdrVal(h, q), h.Values) || (h.Regexp != "" && reMatch(ref(h.headerRE), hdrVal(h, q)))
pred headersOK(p *MuxPath, q *httpprot.Request) := p.matchAllHeader ? (forall k int :: 0 <= k && k < len(p.headers) ==> hdrAllOK(p.headers[k], q)) : (exists k int :: 0 <= k && k < len(p.headers) && hdrAnyOK(p.headers[k], q))
pred wfReq(q *httpprot.Request) := q != nil && q.Request != nil && q.Request.URL != nil
pred wfPath(p *MuxPath) := p != nil && (forall k int :: 0 <= k && k < len(p.headers) ==> p.headers[k] != nil && (p.headers[k].Regexp != "" ==> p.headers[k].headerRE != nil)) && (p.ipFilter != nil ==> ipfilter.wfFilter(p.ipFilter))
pred wfRule(r *muxRule) := r != nil && (forall j int :: 0 <= j && j < len(r.paths) ==> wfPath(r.paths[j])) && (r.ipFilter != nil ==> ipfilter.wfFilter(r.ipFilter))

func (mr *muxRule) match(r *httpprot.Request) (ok bool)
  requires mr != nil && wfReq(r)
  ensures ok == hostOK(mr, r)

func (mp *MuxPath) matchPath(r *httpprot.Request) (ok bool)
  requires mp != nil && wfReq(r)
  ensures ok == pathOK(mp, r)

func (mp *MuxPath) matchMethod(r *httpprot.Request) (ok bool)
  requires mp != nil && wfReq(r)
  ensures ok == methodOK(mp, r)

func (mp *MuxPath) matchHeaders(r *httpprot.Request) (ok bool)
  requires wfPath(mp) && wfReq(r)
  ensures ok == headersOK(mp, r)
  invariant[1] forall k int :: 0 <= k && k < idx$1 ==> hdrAllOK(mp.headers[k], r)
  invariant[2] forall k int :: 0 <= k && k < idx$2 ==> !hdrAnyOK(mp.headers[k], r)

func (mp *MuxPath) rewrite(r *httpprot.Request)
  requires mp != nil && wfReq(r)
  requires matched: pathOK(mp, r)
  modifies r.Request.URL.Path
  ensures no-target-keeps-path: mp.rewriteTarget == "" ==> r.Request.URL.Path == old(r.Request.URL.Path)
  ensures exact: mp.rewriteTarget != "" && mp.path != "" && mp.path == old(r.Request.URL.Path) ==> r.Request.URL.Path == mp.rewriteTarget
  ensures prefix: mp.rewriteTarget != "" && !(mp.path != "" && mp.path == old(r.Request.URL.Path)) && mp.pathPrefix != "" && hasPrefix(old(r.Request.URL.Path), mp.pathPrefix) ==> r.Request.URL.Path == mp.rewriteTarget ++ substr(old(r.Request.URL.Path), len(mp.pathPrefix), len(old(r.Request.URL.Path)) - len(mp.pathPrefix))
  ensures regexp: mp.rewriteTarget != "" && !(mp.path != "" && mp.path == old(r.Request.URL.Path)) && !(mp.pathPrefix != "" && hasPrefix(old(r.Request.URL.Path), mp.pathPrefix)) ==> r.Request.URL.Path == (mp.pathRE != nil ? reReplace(ref(mp.pathRE), old(r.Request.URL.Path), mp.rewriteTarget) : old(r.Request.URL.Path))
@*/
