//go:build verif

package httpserver

// Contracts for properties C01 / C05 / C12 (routing). Comment-only file, compiled only with -tags verif.

/*@
pred full(fs *ipfilter.IPFilters) := cap(fs.filters) == len(fs.filters)

func newIPFilterChain(parentIPFilters *ipfilter.IPFilters, childSpec *ipfilter.Spec) (chain *ipfilter.IPFilters)
  requires parent-wf: parentIPFilters != nil ==> ipfilter.wfFilters(parentIPFilters) && full(parentIPFilters)
  ensures empty-chain-is-nil: (parentIPFilters == nil || len(parentIPFilters.filters) == 0) && childSpec == nil ==> chain == nil
  ensures nonempty: chain != nil ==> fresh(chain) && ipfilter.wfFilters(chain) && full(chain) && len(chain.filters) >= 1
  ensures parent-prefix: chain != nil && parentIPFilters != nil ==> len(chain.filters) == len(parentIPFilters.filters) + (childSpec != nil ? 1 : 0) && (forall k int :: 0 <= k && k < len(parentIPFilters.filters) ==> chain.filters[k] == parentIPFilters.filters[k])
  ensures no-parent: chain != nil && parentIPFilters == nil ==> len(chain.filters) == 1
  ensures child-last: chain != nil && childSpec != nil ==> chain.filters[len(chain.filters) - 1].spec == childSpec && fresh(chain.filters[len(chain.filters) - 1])
  ensures chain-exists: childSpec != nil || (parentIPFilters != nil && len(parentIPFilters.filters) > 0) ==> chain != nil

func newIPFilter(spec *ipfilter.Spec) (f *ipfilter.IPFilter)
  ensures spec == nil ==> f == nil
  ensures spec != nil ==> fresh(f) && ipfilter.wfFilter(f) && f.spec == spec

func allowIP(ipFilter *ipfilter.IPFilter, ip string) (ok bool)
  requires ipFilter != nil ==> ipfilter.wfFilter(ipFilter)
  ensures ok == (ipFilter == nil || ipfilter.allows(ipFilter, ip))
@*/
