//go:build verif

package sem

/*@
pred units(s *Semaphore) := wHeld[ref(s.sem)]

func (s *Semaphore) AcquireWithContext(ctx context.Context) (err error)
  requires s != nil && s.sem != nil
  modifies wHeld
  ensures err == nil ==> wHeld == old(store(wHeld, ref(s.sem), wHeld[ref(s.sem)] + 1))
  ensures err != nil ==> wHeld == old(wHeld) && ctxDone[ifaceVal(ctx)]

func (s *Semaphore) Release()
  requires s != nil && s.sem != nil
  modifies wHeld
  ensures wHeld == old(store(wHeld, ref(s.sem), wHeld[ref(s.sem)] - 1))
@*/
