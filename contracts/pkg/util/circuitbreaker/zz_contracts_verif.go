//go:build verif

package circuitbreaker

// Contracts for property C08 (circuit breaker). Comment-only file, compiled only with -tags verif.

/*@
ghost var clock int

model nowFunc() (t time.Time)
  modifies clock
  ensures clock >= old(clock) && t == clock
  ensures int63-nanoseconds: 0 <= clock && clock < pow2(62)

// ---- counting results in a window: cnt(a, v, n) = |{ j < n : a[j] == v }| ----
ufunc cnt(a mmap[int]int, v int, n int) int
axiom cnt-zero: forall a mmap[int]int; v int :: cnt(a, v, 0) == 0
axiom cnt-step: forall a mmap[int]int; v int; n int :: n > 0 ==> cnt(a, v, n) == cnt(a, v, n - 1) + (a[n - 1] == v ? 1 : 0)
lemma cnt-range@n: forall a mmap[int]int; v int; n int :: 0 <= cnt(a, v, n) && cnt(a, v, n) <= n
lemma cnt-three@n: forall a mmap[int]int; n int :: cnt(a, 1, n) + cnt(a, 2, n) + cnt(a, 3, n) <= n
lemma cnt-store@n: forall a mmap[int]int; v int; n int; i int; x int :: cnt(store(a, i, x), v, n) == cnt(a, v, n) + ((0 <= i && i < n) ? ((x == v ? 1 : 0) - (a[i] == v ? 1 : 0)) : 0)
lemma cnt-member@n: forall a mmap[int]int; v int; n int; i int :: 0 <= i && i < n && a[i] == v ==> cnt(a, v, n) >= 1
lemma cnt-zeros@n: forall v int; n int :: v != 0 ==> cnt(zeros(), v, n) == 0

pred counts(w *CountBasedWindow) := w.total == cnt(contents(w.bucket), 1, len(w.bucket)) + cnt(contents(w.bucket), 2, len(w.bucket)) + cnt(contents(w.bucket), 3, len(w.bucket)) && w.slow == cnt(contents(w.bucket), 2, len(w.bucket)) && w.failure == cnt(contents(w.bucket), 3, len(w.bucket))
pred results(w *CountBasedWindow) := forall j int :: 0 <= j && j < len(w.bucket) ==> 0 <= w.bucket[j] && w.bucket[j] <= 3
pred wfCBW(w *CountBasedWindow) := w != nil && 0 <= w.bucketIdx && (len(w.bucket) == 0 ? w.bucketIdx == 0 : w.bucketIdx < len(w.bucket)) && counts(w) && results(w)

func NewCountBasedWindow(size uint32) (cbw *CountBasedWindow)
  ensures fresh(cbw) && wfCBW(cbw) && len(cbw.bucket) == size && cbw.total == 0 && cbw.slow == 0 && cbw.failure == 0 && cbw.bucketIdx == 0

func (cbw *CountBasedWindow) Reset()
  requires cbw != nil
  modifies cbw.total, cbw.slow, cbw.failure, cbw.bucketIdx, cbw.bucket
  ensures wfCBW(cbw) && len(cbw.bucket) == old(len(cbw.bucket)) && cbw.total == 0 && cbw.slow == 0 && cbw.failure == 0

func (cbw *CountBasedWindow) Total() (n uint32)
  requires cbw != nil
  ensures n == cbw.total

func (cbw *CountBasedWindow) Push(result CallResult)
  flag overflow=check
  requires wfCBW(cbw) && len(cbw.bucket) >= 1 && len(cbw.bucket) < pow2(31)
  requires valid-result: 1 <= result && result <= 3
  modifies cbw.total, cbw.slow, cbw.failure, cbw.bucketIdx, elems(cbw.bucket)
  ensures wf: wfCBW(cbw)
  ensures same-size: len(cbw.bucket) == old(len(cbw.bucket)) && ref(cbw.bucket) == old(ref(cbw.bucket))
  ensures nonempty: cbw.total >= 1 && cbw.total <= len(cbw.bucket)
  ensures bounded: cbw.slow + cbw.failure <= cbw.total
  ensures stored: contents(cbw.bucket) == old(store(contents(cbw.bucket), cbw.bucketIdx, result))
  ensures advance: cbw.bucketIdx == (old(cbw.bucketIdx) + 1 == len(cbw.bucket) ? 0 : old(cbw.bucketIdx) + 1)
  ensures total-grows-until-full: cbw.total == old(cbw.total) + (old(cbw.bucket[cbw.bucketIdx]) == 0 ? 1 : 0)

func (cbw *CountBasedWindow) FailureRate() (r uint8)
  flag overflow=check
  requires wfCBW(cbw) && cbw.total >= 1 && len(cbw.bucket) <= 42949672
  ensures r == cbw.failure * 100 / cbw.total && r <= 100

func (cbw *CountBasedWindow) SlowRate() (r uint8)
  flag overflow=check
  requires wfCBW(cbw) && cbw.total >= 1 && len(cbw.bucket) <= 42949672
  ensures r == cbw.slow * 100 / cbw.total && r <= 100

// ---- sums over buckets of the time based window ----
ufunc sumTo(w mmap[int]int, n int) int
axiom sum-zero: forall w mmap[int]int :: sumTo(w, 0) == 0
axiom sum-step: forall w mmap[int]int; n int :: n > 0 ==> sumTo(w, n) == sumTo(w, n - 1) + w[n - 1]
lemma sum-zeros@n: forall n int :: sumTo(zeros(), n) == 0
lemma sum-store@n: forall w mmap[int]int; n int; i int; x int :: sumTo(store(w, i, x), n) == sumTo(w, n) + ((0 <= i && i < n) ? x - w[i] : 0)
lemma sum-le3@n: forall a mmap[int]int; b mmap[int]int; c mmap[int]int; n int :: (forall k int :: 0 <= k && k < n ==> a[k] + b[k] <= c[k]) ==> sumTo(a, n) + sumTo(b, n) <= sumTo(c, n)
lemma sum-ge-elem@n: forall w mmap[int]int; n int; i int :: (forall k int :: 0 <= k && k < n ==> w[k] >= 0) && 0 <= i && i < n ==> sumTo(w, n) >= w[i]

pred second() := 1000000000
pred tbwSums(w *TimeBasedWindow) := w.total == sumTo(fieldContents(w.bucket, "total"), len(w.bucket)) && w.slow == sumTo(fieldContents(w.bucket, "slow"), len(w.bucket)) && w.failure == sumTo(fieldContents(w.bucket, "failure"), len(w.bucket))
pred tbwBuckets(w *TimeBasedWindow) := forall k int :: 0 <= k && k < len(w.bucket) ==> w.bucket[k].total >= 0 && w.bucket[k].slow >= 0 && w.bucket[k].failure >= 0 && w.bucket[k].slow + w.bucket[k].failure <= w.bucket[k].total
pred wfTBW(w *TimeBasedWindow) := w != nil && w.beginAt >= 0 && len(w.bucket) >= 1 && 0 <= w.firstBucket && w.firstBucket < len(w.bucket) && tbwSums(w) && tbwBuckets(w)

func NewTimeBasedWindow(size uint32) (tbw *TimeBasedWindow)
  requires size >= 1
  modifies clock
  ensures fresh(tbw) && wfTBW(tbw) && len(tbw.bucket) == size && tbw.total == 0 && tbw.slow == 0 && tbw.failure == 0
  ensures aligned: tbw.beginAt <= clock && clock < tbw.beginAt + second() && clock >= old(clock)

func (tbw *TimeBasedWindow) evict(now time.Time)
  flag overflow=check
  requires wfTBW(tbw) && len(tbw.bucket) < pow2(31)
  requires monotone-clock: tbw.beginAt <= now && now < pow2(62)
  modifies tbw.total, tbw.slow, tbw.failure, tbw.beginAt, tbw.firstBucket, elems(tbw.bucket)
  ensures wf: wfTBW(tbw) && len(tbw.bucket) == old(len(tbw.bucket)) && ref(tbw.bucket) == old(ref(tbw.bucket))
  ensures window-covers-now: tbw.beginAt <= now && now < tbw.beginAt + len(tbw.bucket) * second()
  ensures begin-moves-forward-by-seconds: tbw.beginAt >= old(tbw.beginAt) && (tbw.beginAt - old(tbw.beginAt)) % second() == 0
  ensures nothing-evicted-in-window: now < old(tbw.beginAt) + len(tbw.bucket) * second() ==> tbw.beginAt == old(tbw.beginAt) && tbw.total == old(tbw.total) && tbw.firstBucket == old(tbw.firstBucket)
  ensures only-evicts: tbw.total <= old(tbw.total) && tbw.slow <= old(tbw.slow) && tbw.failure <= old(tbw.failure)
  invariant[1] wfTBW(tbw) && len(tbw.bucket) == old(len(tbw.bucket)) && ref(tbw.bucket) == old(ref(tbw.bucket))
  invariant[1] 0 <= i && i <= evicts && evicts <= len(tbw.bucket)
  invariant[1] time: tbw.beginAt <= now && now < tbw.beginAt + len(tbw.bucket) * second() && tbw.beginAt >= old(tbw.beginAt) && (tbw.beginAt - old(tbw.beginAt)) % second() == 0
  invariant[1] only-evicts: tbw.total <= old(tbw.total) && tbw.slow <= old(tbw.slow) && tbw.failure <= old(tbw.failure)
  decreases[1] evicts - i

func (tbw *TimeBasedWindow) Push(result CallResult)
  requires wfTBW(tbw) && len(tbw.bucket) < pow2(31)
  requires monotone-clock: tbw.beginAt <= clock
  requires valid-result: 1 <= result && result <= 3
  modifies tbw.total, tbw.slow, tbw.failure, tbw.beginAt, tbw.firstBucket, elems(tbw.bucket), clock
  ensures wf: wfTBW(tbw) && len(tbw.bucket) == old(len(tbw.bucket)) && ref(tbw.bucket) == old(ref(tbw.bucket))
  ensures nonempty: tbw.total >= 1 && tbw.total <= old(tbw.total) + 1
  ensures clock-monotone: clock >= old(clock)
  ensures bounded: tbw.slow + tbw.failure <= tbw.total
  ensures window-covers-now: tbw.beginAt <= clock && clock < tbw.beginAt + len(tbw.bucket) * second()

func (tbw *TimeBasedWindow) Total() (n uint32)
  requires tbw != nil
  ensures n == tbw.total

func (tbw *TimeBasedWindow) FailureRate() (r uint8)
  requires wfTBW(tbw) && tbw.total >= 1 && tbw.failure <= tbw.total
  ensures r == tbw.failure * 100 / tbw.total && r <= 100

func (tbw *TimeBasedWindow) SlowRate() (r uint8)
  requires wfTBW(tbw) && tbw.total >= 1 && tbw.slow <= tbw.total
  ensures r == tbw.slow * 100 / tbw.total && r <= 100

// ---- the breaker ----
ghost field CircuitBreaker.pushedTotal int
ghost field CircuitBreaker.pushedFailure int
ghost field CircuitBreaker.pushedSlow int

pred isCBW(w Window) := typeIs(w, "*CountBasedWindow")
pred isTBW(w Window) := typeIs(w, "*TimeBasedWindow")
pred asCBW(w Window) := as(w, "*CountBasedWindow")
pred asTBW(w Window) := as(w, "*TimeBasedWindow")
pred wTotal(w Window) := isCBW(w) ? asCBW(w).total : asTBW(w).total
pred wFailure(w Window) := isCBW(w) ? asCBW(w).failure : asTBW(w).failure
pred wSlow(w Window) := isCBW(w) ? asCBW(w).slow : asTBW(w).slow
pred wSize(w Window) := isCBW(w) ? len(asCBW(w).bucket) : len(asTBW(w).bucket)
pred wfWindow(w Window) := (isCBW(w) && wfCBW(asCBW(w)) && len(asCBW(w).bucket) <= 42949672) || (isTBW(w) && wfTBW(asTBW(w)) && len(asTBW(w).bucket) <= 42949672 && asTBW(w).beginAt <= clock && asTBW(w).slow + asTBW(w).failure <= asTBW(w).total)
pred policyOK(p *Policy) := p != nil && p.SlidingWindowSize >= 1 && p.SlidingWindowSize <= 42949672 && p.PermittedNumberOfCallsInHalfOpen >= 1 && p.PermittedNumberOfCallsInHalfOpen <= 42949672 && p.SlidingWindowType <= 1
pred minCalls(cb *CircuitBreaker, st int) := st == StateHalfOpen ? min(cb.policy.MinimumNumberOfCalls, cb.policy.PermittedNumberOfCallsInHalfOpen) : cb.policy.MinimumNumberOfCalls

guarded CircuitBreaker.{state, transitTime, window, numberOfCallsInHalfOpen, stateID, listener, pushedTotal, pushedFailure, pushedSlow} by lock

type CircuitBreaker invariant states: 0 <= self.state && self.state <= 4 && self.transitTime <= clock
type CircuitBreaker invariant window: self.window != nil && wfWindow(self.window) && wSize(self.window) >= 1
type CircuitBreaker invariant half-open: self.state == StateHalfOpen ==> isCBW(self.window) && wSize(self.window) == self.policy.PermittedNumberOfCallsInHalfOpen && self.numberOfCallsInHalfOpen <= self.policy.PermittedNumberOfCallsInHalfOpen
type CircuitBreaker invariant closed: self.state == StateClosed ==> wSize(self.window) == self.policy.SlidingWindowSize && (self.policy.SlidingWindowType == CountBased ? isCBW(self.window) : isTBW(self.window))

func (cb *CircuitBreaker) transitTo(state State, reason string)
  flag allocates
  requires cb != nil && policyOK(cb.policy) && 0 <= cb.state && cb.state <= 4 && state <= 4
  modifies cb.state, cb.transitTime, cb.stateID, cb.window, cb.numberOfCallsInHalfOpen, clock
  ensures same-state-noop: state == old(cb.state) ==> cb.state == old(cb.state) && cb.stateID == old(cb.stateID) && cb.transitTime == old(cb.transitTime) && cb.window == old(cb.window) && cb.numberOfCallsInHalfOpen == old(cb.numberOfCallsInHalfOpen) && clock == old(clock)
  ensures transit: state != old(cb.state) ==> cb.state == state && cb.stateID == old(cb.stateID) + 1 && old(clock) <= cb.transitTime && cb.transitTime <= clock
  ensures closed-fresh-window: state != old(cb.state) && state == StateClosed ==> fresh(cb.window) && wfWindow(cb.window) && wTotal(cb.window) == 0 && wSize(cb.window) == cb.policy.SlidingWindowSize && (cb.policy.SlidingWindowType == CountBased ? isCBW(cb.window) : isTBW(cb.window)) && cb.numberOfCallsInHalfOpen == old(cb.numberOfCallsInHalfOpen)
  ensures half-open-fresh-trials: state != old(cb.state) && state == StateHalfOpen ==> fresh(cb.window) && isCBW(cb.window) && wfWindow(cb.window) && wTotal(cb.window) == 0 && wSize(cb.window) == cb.policy.PermittedNumberOfCallsInHalfOpen && cb.numberOfCallsInHalfOpen == 0
  ensures other-keeps-window: state != old(cb.state) && state != StateClosed && state != StateHalfOpen ==> cb.window == old(cb.window) && cb.numberOfCallsInHalfOpen == old(cb.numberOfCallsInHalfOpen)

func New(policy *Policy) (cb *CircuitBreaker)
  flag allocates
  requires policyOK(policy)
  modifies clock
  ensures fresh(cb) && cb.policy == policy && cb.state == StateClosed && cb.stateID == 1
  ensures window: cb.window != nil && wfWindow(cb.window) && wTotal(cb.window) == 0 && wSize(cb.window) == policy.SlidingWindowSize

func (cb *CircuitBreaker) AcquirePermission() (ok bool, id uint32)
  flag allocates
  requires cb != nil && policyOK(cb.policy)
  modifies cb.state, cb.transitTime, cb.stateID, cb.window, cb.numberOfCallsInHalfOpen, clock
  ensures id-is-current: id == cb.stateID
  ensures closed-passes: old(cb.state) == StateClosed ==> ok && cb.state == StateClosed && cb.stateID == old(cb.stateID) && cb.window == old(cb.window)
  ensures disabled-passes: old(cb.state) == StateDisabled ==> ok && cb.state == StateDisabled && cb.stateID == old(cb.stateID)
  ensures force-open-rejects: old(cb.state) == StateForceOpen ==> !ok && cb.state == StateForceOpen && cb.stateID == old(cb.stateID)
  ensures open-short-circuits-until-wait-elapsed: old(cb.state) == StateOpen && clock - old(cb.transitTime) < cb.policy.WaitDurationInOpen ==> !ok && cb.state == StateOpen && cb.stateID == old(cb.stateID)
  ensures open-admits-only-after-wait: old(cb.state) == StateOpen && ok ==> clock - old(cb.transitTime) >= cb.policy.WaitDurationInOpen && cb.state == StateHalfOpen && cb.stateID == old(cb.stateID) + 1 && cb.numberOfCallsInHalfOpen == 1
  ensures open-elapsed-becomes-half-open: old(cb.state) == StateOpen && old(clock) - old(cb.transitTime) >= cb.policy.WaitDurationInOpen ==> ok && cb.state == StateHalfOpen
  ensures half-open-admits-first-permitted: old(cb.state) == StateHalfOpen ==> (ok <==> old(cb.numberOfCallsInHalfOpen) < cb.policy.PermittedNumberOfCallsInHalfOpen)
  ensures half-open-counts-trials: old(cb.state) == StateHalfOpen && ok ==> cb.numberOfCallsInHalfOpen == old(cb.numberOfCallsInHalfOpen) + 1 && cb.state == StateHalfOpen && cb.stateID == old(cb.stateID) && cb.window == old(cb.window)
  ensures half-open-stalled-reopens: old(cb.state) == StateHalfOpen && !ok && cb.policy.MaxWaitDurationInHalfOpen > 0 && old(clock) - old(cb.transitTime) > cb.policy.MaxWaitDurationInHalfOpen ==> cb.state == StateOpen && cb.stateID == old(cb.stateID) + 1
  ensures half-open-rejected-stays-or-reopens: old(cb.state) == StateHalfOpen && !ok ==> (cb.state == StateHalfOpen && cb.stateID == old(cb.stateID)) || (cb.state == StateOpen && cb.policy.MaxWaitDurationInHalfOpen > 0 && clock - old(cb.transitTime) > cb.policy.MaxWaitDurationInHalfOpen)

func (cb *CircuitBreaker) RecordResult(stateID uint32, hasErr bool, d time.Duration)
  flag allocates
  requires cb != nil && policyOK(cb.policy)
  modifies cb.state, cb.transitTime, cb.stateID, cb.window, cb.numberOfCallsInHalfOpen, cb.pushedTotal, cb.pushedFailure, cb.pushedSlow, clock, allof("util/circuitbreaker.CountBasedWindow.total"), allof("util/circuitbreaker.CountBasedWindow.slow"), allof("util/circuitbreaker.CountBasedWindow.failure"), allof("util/circuitbreaker.CountBasedWindow.bucketIdx"), allof("elem<util/circuitbreaker.CallResult>"), allof("util/circuitbreaker.TimeBasedWindow.total"), allof("util/circuitbreaker.TimeBasedWindow.slow"), allof("util/circuitbreaker.TimeBasedWindow.failure"), allof("util/circuitbreaker.TimeBasedWindow.beginAt"), allof("util/circuitbreaker.TimeBasedWindow.firstBucket"), allof("elem<util/circuitbreaker.timeBasedWindowBucket>.total"), allof("elem<util/circuitbreaker.timeBasedWindowBucket>.slow"), allof("elem<util/circuitbreaker.timeBasedWindowBucket>.failure")
  ensures stale-result-ignored: stateID != old(cb.stateID) ==> cb.state == old(cb.state) && cb.stateID == old(cb.stateID) && cb.window == old(cb.window) && cb.numberOfCallsInHalfOpen == old(cb.numberOfCallsInHalfOpen) && wTotal(cb.window) == old(wTotal(cb.window)) && wFailure(cb.window) == old(wFailure(cb.window)) && wSlow(cb.window) == old(wSlow(cb.window))
  ensures below-minimum-keeps-state: stateID == old(cb.stateID) && cb.pushedTotal < minCalls(cb, old(cb.state)) ==> cb.state == old(cb.state) && cb.stateID == old(cb.stateID)
  ensures threshold-opens: stateID == old(cb.stateID) && cb.pushedTotal >= minCalls(cb, old(cb.state)) && (cb.pushedFailure * 100 / cb.pushedTotal >= cb.policy.FailureRateThreshold || cb.pushedSlow * 100 / cb.pushedTotal >= cb.policy.SlowCallRateThreshold) ==> cb.state == StateOpen && (old(cb.state) != StateOpen ==> cb.stateID == old(cb.stateID) + 1 && old(clock) <= cb.transitTime && cb.transitTime <= clock)
  ensures trials-close: stateID == old(cb.stateID) && old(cb.state) == StateHalfOpen && cb.pushedTotal >= minCalls(cb, StateHalfOpen) && !(cb.pushedFailure * 100 / cb.pushedTotal >= cb.policy.FailureRateThreshold || cb.pushedSlow * 100 / cb.pushedTotal >= cb.policy.SlowCallRateThreshold) ==> cb.state == StateClosed && cb.stateID == old(cb.stateID) + 1 && wTotal(cb.window) == 0
  ensures healthy-closed-stays: stateID == old(cb.stateID) && old(cb.state) == StateClosed && !(cb.pushedTotal >= minCalls(cb, StateClosed) && (cb.pushedFailure * 100 / cb.pushedTotal >= cb.policy.FailureRateThreshold || cb.pushedSlow * 100 / cb.pushedTotal >= cb.policy.SlowCallRateThreshold)) ==> cb.state == StateClosed && cb.stateID == old(cb.stateID)
  ensures pushed-counts: stateID == old(cb.stateID) ==> cb.pushedTotal >= 1 && cb.pushedFailure + cb.pushedSlow <= cb.pushedTotal && cb.pushedTotal <= old(wTotal(cb.window)) + 1
  ghost at call[1] Push: cb.pushedTotal := wTotal(cb.window)
  ghost at call[1] Push: cb.pushedFailure := wFailure(cb.window)
  ghost at call[1] Push: cb.pushedSlow := wSlow(cb.window)
@*/
