//go:build verif

package circuitbreaker

// Contracts for property C08 (circuit breaker). Comment-only file, compiled only with -tags verif.

/*@
ghost var clock int

model nowFunc() (t time.Time)
  modifies clock
  ensures clock >= old(clock) && t == clock
  ensures int63-nanoseconds: 0 <= clock && clock < pow2(62)

// ---- counting results in a window: cnt(a, v, n) = |{ j < n : a[j] == v }| ----
ufunc cnt(a mmap[int]int, v int, n int) int
axiom cnt-zero: forall a mmap[int]int; v int :: cnt(a, v, 0) == 0
axiom cnt-step: forall a mmap[int]int; v int; n int :: n > 0 ==> cnt(a, v, n) == cnt(a, v, n - 1) + (a[n - 1] == v ? 1 : 0)
lemma cnt-range@n: forall a mmap[int]int; v int; n int :: 0 <= cnt(a, v, n) && cnt(a, v, n) <= n
lemma cnt-three@n: forall a mmap[int]int; n int :: cnt(a, 1, n) + cnt(a, 2, n) + cnt(a, 3, n) <= n
lemma cnt-store@n: forall a mmap[int]int; v int; n int; i int; x int :: cnt(store(a, i, x), v, n) == cnt(a, v, n) + ((0 <= i && i < n) ? ((x == v ? 1 : 0) - (a[i] == v ? 1 : 0)) : 0)
lemma cnt-member@n: forall a mmap[int]int; v int; n int; i int :: 0 <= i && i < n && a[i] == v ==> cnt(a, v, n) >= 1
lemma cnt-zeros@n: forall v int; n int :: v != 0 ==> cnt(zeros(), v, n) == 0

pred counts(w *CountBasedWindow) := w.total == cnt(contents(w.bucket), 1, len(w.bucket)) + cnt(contents(w.bucket), 2, len(w.bucket)) + cnt(contents(w.bucket), 3, len(w.bucket)) && w.slow == cnt(contents(w.bucket), 2, len(w.bucket)) && w.failure == cnt(contents(w.bucket), 3, len(w.bucket))
pred results(w *CountBasedWindow) := forall j int :: 0 <= j && j < len(w.bucket) ==> 0 <= w.bucket[j] && w.bucket[j] <= 3
pred wfCBW(w *CountBasedWindow) := w != nil && 0 <= w.bucketIdx && (len(w.bucket) == 0 ? w.bucketIdx == 0 : w.bucketIdx < len(w.bucket)) && counts(w) && results(w)

func NewCountBasedWindow(size uint32) (cbw *CountBasedWindow)
  ensures fresh(cbw) && wfCBW(cbw) && len(cbw.bucket) == size && cbw.total == 0 && cbw.slow == 0 && cbw.failure == 0 && cbw.bucketIdx == 0

func (cbw *CountBasedWindow) Reset()
  requires cbw != nil
  modifies cbw.total, cbw.slow, cbw.failure, cbw.bucketIdx, cbw.bucket
  ensures wfCBW(cbw) && len(cbw.bucket) == old(len(cbw.bucket)) && cbw.total == 0 && cbw.slow == 0 && cbw.failure == 0

func (cbw *CountBasedWindow) Total() (n uint32)
  requires cbw != nil
  ensures n == cbw.total

func (cbw *CountBasedWindow) Push(result CallResult)
  flag overflow=check
  requires wfCBW(cbw) && len(cbw.bucket) >= 1 && len(cbw.bucket) < pow2(31)
  requires valid-result: 1 <= result && result <= 3
  modifies cbw.total, cbw.slow, cbw.failure, cbw.bucketIdx, elems(cbw.bucket)
  ensures wf: wfCBW(cbw)
  ensures same-size: len(cbw.bucket) == old(len(cbw.bucket)) && ref(cbw.bucket) == old(ref(cbw.bucket))
  ensures nonempty: cbw.total >= 1 && cbw.total <= len(cbw.bucket)
  ensures stored: contents(cbw.bucket) == old(store(contents(cbw.bucket), cbw.bucketIdx, result))
  ensures advance: cbw.bucketIdx == (old(cbw.bucketIdx) + 1 == len(cbw.bucket) ? 0 : old(cbw.bucketIdx) + 1)
  ensures total-grows-until-full: cbw.total == old(cbw.total) + (old(cbw.bucket[cbw.bucketIdx]) == 0 ? 1 : 0)

func (cbw *CountBasedWindow) FailureRate() (r uint8)
  flag overflow=check
  requires wfCBW(cbw) && cbw.total >= 1 && len(cbw.bucket) <= 42949672
  ensures r == cbw.failure * 100 / cbw.total && r <= 100

func (cbw *CountBasedWindow) SlowRate() (r uint8)
  flag overflow=check
  requires wfCBW(cbw) && cbw.total >= 1 && len(cbw.bucket) <= 42949672
  ensures r == cbw.slow * 100 / cbw.total && r <= 100

// ---- sums over buckets of the time based window ----
ufunc sumTo(w mmap[int]int, n int) int
axiom sum-zero: forall w mmap[int]int :: sumTo(w, 0) == 0
axiom sum-step: forall w mmap[int]int; n int :: n > 0 ==> sumTo(w, n) == sumTo(w, n - 1) + w[n - 1]
lemma sum-zeros@n: forall n int :: sumTo(zeros(), n) == 0
lemma sum-store@n: forall w mmap[int]int; n int; i int; x int :: sumTo(store(w, i, x), n) == sumTo(w, n) + ((0 <= i && i < n) ? x - w[i] : 0)
lemma sum-le3@n: forall a mmap[int]int; b mmap[int]int; c mmap[int]int; n int :: (forall k int :: 0 <= k && k < n ==> a[k] + b[k] <= c[k]) ==> sumTo(a, n) + sumTo(b, n) <= sumTo(c, n)
lemma sum-ge-elem@n: forall w mmap[int]int; n int; i int :: (forall k int :: 0 <= k && k < n ==> w[k] >= 0) && 0 <= i && i < n ==> sumTo(w, n) >= w[i]

pred second() := 1000000000
pred tbwSums(w *TimeBasedWindow) := w.total == sumTo(fieldContents(w.bucket, "total"), len(w.bucket)) && w.slow == sumTo(fieldContents(w.bucket, "slow"), len(w.bucket)) && w.failure == sumTo(fieldContents(w.bucket, "failure"), len(w.bucket))
pred tbwBuckets(w *TimeBasedWindow) := forall k int :: 0 <= k && k < len(w.bucket) ==> w.bucket[k].total >= 0 && w.bucket[k].slow >= 0 && w.bucket[k].failure >= 0 && w.bucket[k].slow + w.bucket[k].failure <= w.bucket[k].total
pred wfTBW(w *TimeBasedWindow) := w != nil && w.beginAt >= 0 && len(w.bucket) >= 1 && 0 <= w.firstBucket && w.firstBucket < len(w.bucket) && tbwSums(w) && tbwBuckets(w)

func NewTimeBasedWindow(size uint32) (tbw *TimeBasedWindow)
  requires size >= 1
  modifies clock
  ensures fresh(tbw) && wfTBW(tbw) && len(tbw.bucket) == size && tbw.total == 0 && tbw.slow == 0 && tbw.failure == 0
  ensures aligned: tbw.beginAt <= clock && clock < tbw.beginAt + second()

func (tbw *TimeBasedWindow) evict(now time.Time)
  flag overflow=check
  requires wfTBW(tbw) && len(tbw.bucket) < pow2(31)
  requires monotone-clock: tbw.beginAt <= now && now < pow2(62)
  modifies tbw.total, tbw.slow, tbw.failure, tbw.beginAt, tbw.firstBucket, elems(tbw.bucket)
  ensures wf: wfTBW(tbw) && len(tbw.bucket) == old(len(tbw.bucket)) && ref(tbw.bucket) == old(ref(tbw.bucket))
  ensures window-covers-now: tbw.beginAt <= now && now < tbw.beginAt + len(tbw.bucket) * second()
  ensures begin-moves-forward-by-seconds: tbw.beginAt >= old(tbw.beginAt) && (tbw.beginAt - old(tbw.beginAt)) % second() == 0
  ensures nothing-evicted-in-window: now < old(tbw.beginAt) + len(tbw.bucket) * second() ==> tbw.beginAt == old(tbw.beginAt) && tbw.total == old(tbw.total) && tbw.firstBucket == old(tbw.firstBucket)
  ensures only-evicts: tbw.total <= old(tbw.total) && tbw.slow <= old(tbw.slow) && tbw.failure <= old(tbw.failure)
  invariant[1] wfTBW(tbw) && len(tbw.bucket) == old(len(tbw.bucket)) && ref(tbw.bucket) == old(ref(tbw.bucket))
  invariant[1] 0 <= i && i <= evicts && evicts <= len(tbw.bucket)
  invariant[1] time: tbw.beginAt <= now && now < tbw.beginAt + len(tbw.bucket) * second() && tbw.beginAt >= old(tbw.beginAt) && (tbw.beginAt - old(tbw.beginAt)) % second() == 0
  invariant[1] only-evicts: tbw.total <= old(tbw.total) && tbw.slow <= old(tbw.slow) && tbw.failure <= old(tbw.failure)
  decreases[1] evicts - i

func (tbw *TimeBasedWindow) Push(result CallResult)
  flag overflow=check
  requires wfTBW(tbw) && len(tbw.bucket) < pow2(31) && tbw.total < pow2(31)
  requires monotone-clock: tbw.beginAt <= clock
  requires valid-result: 1 <= result && result <= 3
  modifies tbw.total, tbw.slow, tbw.failure, tbw.beginAt, tbw.firstBucket, elems(tbw.bucket), clock
  ensures wf: wfTBW(tbw) && len(tbw.bucket) == old(len(tbw.bucket)) && ref(tbw.bucket) == old(ref(tbw.bucket))
  ensures nonempty: tbw.total >= 1
  ensures bounded: tbw.slow + tbw.failure <= tbw.total
  ensures window-covers-now: tbw.beginAt <= clock && clock < tbw.beginAt + len(tbw.bucket) * second()

func (tbw *TimeBasedWindow) Total() (n uint32)
  requires tbw != nil
  ensures n == tbw.total

func (tbw *TimeBasedWindow) FailureRate() (r uint8)
  flag overflow=check
  requires wfTBW(tbw) && tbw.total >= 1 && tbw.total <= 42949672 && tbw.failure <= tbw.total
  ensures r == tbw.failure * 100 / tbw.total && r <= 100

func (tbw *TimeBasedWindow) SlowRate() (r uint8)
  flag overflow=check
  requires wfTBW(tbw) && tbw.total >= 1 && tbw.total <= 42949672 && tbw.slow <= tbw.total
  ensures r == tbw.slow * 100 / tbw.total && r <= 100
@*/
