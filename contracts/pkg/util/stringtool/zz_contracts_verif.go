//go:build verif

package stringtool

/*@
pred inSlice(str string, slice []string) := exists k int :: 0 <= k && k < len(slice) && slice[k] == str

func StrInSlice(str string, slice []string) (found bool)
  ensures found <==> inSlice(str, slice)
  invariant[1] forall k int :: 0 <= k && k < idx$1 ==> slice[k] != str
@*/
