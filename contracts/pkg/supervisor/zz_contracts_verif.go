//go:build verif

package supervisor

// Contracts for property C20 (object lifecycle). Comment-only file, compiled only with -tags verif.

/*@
// the content identity of a spec: two specs are Equal iff their sid is equal; the sid of the
// spec parsed from a YAML text is a function of that text
ghost field Spec.sid int
ufunc sidOf(yaml string) int
ufunc parses(yaml string) bool
ufunc wants(f int, e *ObjectEntity) bool
ufunc kindOfYaml(yaml string) string

func (s *Supervisor) NewObjectEntityFromConfig(config string) (entity *ObjectEntity, err error)
  trusted
  flag allocates
  ensures (err == nil) <==> parses(config)
  ensures err == nil ==> entity != nil && fresh(entity) && entity.spec != nil && entity.spec.sid == sidOf(config) && entity.spec.meta != nil && entity.spec.meta.Kind == kindOfYaml(config)
  ensures err != nil ==> entity == nil

func (s *Spec) Name() (n string)
  requires s != nil && s.meta != nil
  ensures n == s.meta.Name

func (e *ObjectEntity) Spec() (s *Spec)
  requires e != nil
  ensures s == e.spec

func (s *Spec) Equals(other *Spec) (eq bool)
  trusted
  pure
  requires s != nil && other != nil
  ensures eq == (s.sid == other.sid)

func (f ObjectEntityWatcherFilter) call(entity *ObjectEntity) (ok bool)
  trusted
  pure
  ensures ok == wants(ref(f), entity)

ghost var eDom set[string]
ghost var eVal mmap[string]int
// the classification handed to the watchers (captured when the watcher loop starts)
ghost var gDeleted set[string]
ghost var gCreated set[string]
ghost var gUpdated set[string]
ghost var gDeletedEnt mmap[string]int

pred entitiesWF(or *ObjectRegistry) := or.entities != nil && (forall n string :: n in or.entities ==> or.entities[n] != nil && or.entities[n].spec != nil && or.entities[n].spec.meta != nil)
pred watchersWF(or *ObjectRegistry) := forall w string :: w in or.watchers ==> or.watchers[w] != nil && or.watchers[w].entities != nil && or.watchers[w].entities != or.entities && or.watchers[w].filter != nil

func (or *ObjectRegistry) applyConfig(config map[string]string)
  flag allocates
  requires or != nil && entitiesWF(or) && watchersWF(or) && or.super != nil
  modifies eDom, eVal, gDeleted, gCreated, gUpdated, gDeletedEnt, entries(or.entities), allof("map<string,*supervisor.ObjectEntity>#dom"), allof("map<string,*supervisor.ObjectEntity>#val"), allof("map<string,*supervisor.ObjectEntity>#card")
  ensures disappeared-names-are-removed: forall n string :: !(n in config) ==> !(n in or.entities)
  ensures unparsable-config-leaves-the-object-alone: forall n string :: n in config && !parses(config[n]) ==> ((n in or.entities) <==> old(n in or.entities)) && or.entities[n] == old(or.entities[n])
  ensures unchanged-spec-keeps-the-same-entity: forall n string :: n in config && parses(config[n]) && old(n in or.entities) && old(or.entities[n].spec.sid) == sidOf(config[n]) ==> n in or.entities && or.entities[n] == old(or.entities[n])
  ensures new-or-changed-spec-gets-a-fresh-entity: forall n string :: n in config && parses(config[n]) && !(old(n in or.entities) && old(or.entities[n].spec.sid) == sidOf(config[n])) ==> n in or.entities && fresh(or.entities[n]) && or.entities[n].spec.sid == sidOf(config[n])
  ensures live-set-is-the-snapshot: forall n string :: n in or.entities ==> n in config
  ensures wf: entitiesWF(or)
  ensures disappeared-name-is-a-delete: forall n string :: old(n in or.entities) && !(n in config) ==> gDeleted[n] && gDeletedEnt[n] == old(ref(or.entities[n])) && !gCreated[n] && !gUpdated[n]
  ensures new-name-is-a-create: forall n string :: n in config && parses(config[n]) && !old(n in or.entities) ==> gCreated[n] && !gDeleted[n] && !gUpdated[n]
  ensures same-kind-spec-change-is-an-update: forall n string :: n in config && parses(config[n]) && old(n in or.entities) && old(or.entities[n].spec.sid) != sidOf(config[n]) && old(or.entities[n].spec.meta.Kind) == kindOfYaml(config[n]) ==> gUpdated[n] && !gCreated[n] && !gDeleted[n]
  ensures kind-change-is-close-plus-init: forall n string :: n in config && parses(config[n]) && old(n in or.entities) && old(or.entities[n].spec.sid) != sidOf(config[n]) && old(or.entities[n].spec.meta.Kind) != kindOfYaml(config[n]) ==> gDeleted[n] && gDeletedEnt[n] == old(ref(or.entities[n])) && gCreated[n] && !gUpdated[n]
  ensures unchanged-or-unparsable-is-no-event: forall n string :: n in config && (!parses(config[n]) || (old(n in or.entities) && old(or.entities[n].spec.sid) == sidOf(config[n]))) ==> !gDeleted[n] && !gCreated[n] && !gUpdated[n]
  invariant[1] wf: entitiesWF(or) && watchersWF(or) && deleted != nil && deleted != or.entities
  invariant[1] visited-gone: forall k int :: 0 <= k && k < idx$1 && !(keys$1[k] in config) ==> !(keys$1[k] in or.entities)
  invariant[1] others-kept: forall n string :: (n in config || (dom$1[n] && pos$1[n] >= idx$1)) ==> ((n in or.entities) <==> old(n in or.entities)) && or.entities[n] == old(or.entities[n])
  invariant[1] deleted-so-far: forall n string :: (n in deleted) <==> (old(n in or.entities) && !(n in config) && dom$1[n] && pos$1[n] < idx$1)
  invariant[1] deleted-entity: forall n string :: n in deleted ==> deleted[n] == old(or.entities[n])
  invariant[1] others-empty: created != nil && updated != nil && created != or.entities && updated != or.entities && deleted != created && deleted != updated && created != updated && (forall n string :: !(n in created) && !(n in updated))
  invariant[1] no-new: forall n string :: n in or.entities ==> old(n in or.entities)
  invariant[2] wf: entitiesWF(or) && watchersWF(or) && created != nil && updated != nil && created != or.entities && updated != or.entities
  invariant[2] events-so-far: forall n string :: ((n in created) <==> (n in config && pos$2[n] < idx$2 && parses(config[n]) && (!old(n in or.entities) || (old(or.entities[n].spec.sid) != sidOf(config[n]) && old(or.entities[n].spec.meta.Kind) != kindOfYaml(config[n]))))) && ((n in updated) <==> (n in config && pos$2[n] < idx$2 && parses(config[n]) && old(n in or.entities) && old(or.entities[n].spec.sid) != sidOf(config[n]) && old(or.entities[n].spec.meta.Kind) == kindOfYaml(config[n])))
  invariant[2] deletes-so-far: forall n string :: (n in deleted) <==> ((old(n in or.entities) && !(n in config)) || (n in config && pos$2[n] < idx$2 && parses(config[n]) && old(n in or.entities) && old(or.entities[n].spec.sid) != sidOf(config[n]) && old(or.entities[n].spec.meta.Kind) != kindOfYaml(config[n])))
  invariant[2] deleted-entity: forall n string :: n in deleted ==> deleted[n] == old(or.entities[n])
  invariant[2] only-config-names: forall n string :: n in or.entities ==> n in config
  invariant[2] visited: forall k int :: 0 <= k && k < idx$2 ==> (let n = keys$2[k] in (parses(config[n]) ? (n in or.entities && ((old(n in or.entities) && old(or.entities[n].spec.sid) == sidOf(config[n])) ? or.entities[n] == old(or.entities[n]) : (fresh(or.entities[n]) && or.entities[n].spec.sid == sidOf(config[n])))) : (((n in or.entities) <==> old(n in or.entities)) && or.entities[n] == old(or.entities[n]))))
  invariant[2] unvisited: forall n string :: n in config && pos$2[n] >= idx$2 ==> ((n in or.entities) <==> old(n in or.entities)) && or.entities[n] == old(or.entities[n])
  ghost at loop[3]: eDom := domOf(or.entities)
  ghost at loop[3]: gDeleted := domOf(deleted)
  ghost at loop[3]: gCreated := domOf(created)
  ghost at loop[3]: gUpdated := domOf(updated)
  ghost at loop[3]: gDeletedEnt := valsOf(deleted)
  ghost at loop[3]: eVal := valsOf(or.entities)
  invariant[3] kept: domOf(or.entities) == eDom && valsOf(or.entities) == eVal && watchersWF(or) && or.entities != nil && deleted != nil && created != nil && updated != nil && deleted != or.entities && created != or.entities && updated != or.entities
  closure[1] ()
    invariant[1] domOf(or.entities) == eDom && valsOf(or.entities) == eVal && watchersWF(or) && event != nil && event.Delete != nil && event.Create != nil && event.Update != nil && fresh(event.Delete) && fresh(event.Create) && fresh(event.Update) && watcher != nil && watcher.entities != nil && watcher.entities != or.entities && watcher.filter != nil
    invariant[2] domOf(or.entities) == eDom && valsOf(or.entities) == eVal && watchersWF(or) && event != nil && event.Delete != nil && event.Create != nil && event.Update != nil && fresh(event.Delete) && fresh(event.Create) && fresh(event.Update) && watcher != nil && watcher.entities != nil && watcher.entities != or.entities && watcher.filter != nil
    invariant[3] domOf(or.entities) == eDom && valsOf(or.entities) == eVal && watchersWF(or) && event != nil && event.Delete != nil && event.Create != nil && event.Update != nil && fresh(event.Delete) && fresh(event.Create) && fresh(event.Update) && watcher != nil && watcher.entities != nil && watcher.entities != or.entities && watcher.filter != nil
  end
@*/
