#!/bin/sh
# run_overlay.sh <pkg dir relative to repo> <test file> [-run regexp]: injects the test into the package with
# `go test -overlay` (nothing is written into the repository) and runs it.
REPO="${VERIF_REPO:-/repo}"; PKG="$1"; TEST="$2"; shift 2
export GOFLAGS=-mod=mod GOPROXY=off GOSUMDB=off GOTOOLCHAIN=local
W=$(mktemp -d "${TMPDIR:-/tmp}/govc-replay.XXXXXX")
trap 'rm -rf "$W"' EXIT
printf '{"Replace": {"%s/%s/zz_govc_replay_test.go": "%s"}}\n' "$REPO" "$PKG" "$TEST" > "$W/ov.json"
EXTRA=""
case "$PKG" in
  *object/httpserver*)
    cp "$REPO/go.mod" "$W/go.verif.mod"; cp "$REPO/go.sum" "$W/go.verif.sum"
    echo "replace github.com/lucas-clemente/quic-go => $(cd "$(dirname "$0")/.." && pwd)/stubs/quic-go" >> "$W/go.verif.mod"
    EXTRA="-modfile=$W/go.verif.mod -ldflags=-checklinkname=0" ;;
esac
cd "$REPO" && go test $EXTRA -overlay "$W/ov.json" -vet=off -count=1 -timeout ${GOVC_TIMEOUT:-60s} "$@" "./$PKG/" 2>&1 | grep -v '^WARNING: .*conda'
