#!/bin/bash
# mkmut.sh <kind:mutants|refactors> <Cxx> <name> <file> <sed-expr>: creates a patch by applying a sed expression to a file of /repo
K=$1; P=$2; N=$3; F=$4; E=$5
T=$(mktemp -d); mkdir -p $T/a/$(dirname $F) $T/b/$(dirname $F); cp /repo/$F $T/a/$F; cp /repo/$F $T/b/$F
sed -i -E "$E" $T/b/$F
if cmp -s $T/a/$F $T/b/$F; then echo "mkmut: no change for $N"; rm -rf $T; exit 1; fi
mkdir -p /verif/selftest/$K/$P
(cd $T && diff -u a/$F b/$F) > /verif/selftest/$K/$P/$N.patch
rm -rf $T; echo "created $K/$P/$N.patch"
