#!/bin/bash
# selftest: every patch under selftest/mutants/<Cxx>/ must make ./check <Cxx> report a VIOLATION,
# every patch under selftest/refactors/<Cxx>/ must leave it passing. Each case runs on its own scratch
# copy of /repo (or of $VERIF_BASE_REPO, e.g. the HEAD snapshot of `vp run --with-repo`) under $TMPDIR (removed
# afterwards); SELFTEST_JOBS cases run in parallel (default 4).
DIR="$(cd "$(dirname "$0")/.." && pwd)"
ONLY="$1"
export DIR
run_one() { # kind prop patch
  kind=$1; prop=$2; patch=$3
  T=$(mktemp -d "${TMPDIR:-/tmp}/govc-selftest.XXXXXX")
  rsync -a --exclude .git "${VERIF_BASE_REPO:-/repo}/" "$T/repo/"
  if ! (cd "$T/repo" && patch -p1 -s < "$patch"); then echo "SELFTEST-ERROR $patch does not apply"; rm -rf "$T"; return; fi
  out=$(cd "$DIR" && VERIF_REPO="$T/repo" VERIF_EVIDENCE_DIR="$T/evidence" ./check "$prop" 2>&1); rc=$?
  rm -rf "$T"
  if [ "$kind" = mutant ]; then
    obls=$(echo "$out" | grep -o 'obligation=[^ ]*' | sort -u | paste -sd' ')
    if [ "$obls" = "obligation=engine" ]; then echo "CORPUS-BUG mutant $prop $(basename $patch): only an engine error (does the mutant compile?)"
    elif [ $rc -ne 0 ] && echo "$out" | grep -q '^VIOLATION'; then echo "ok   mutant   $prop $(basename $patch): $(echo "$out" | grep -m1 -o 'obligation=[^ ]*')"
    else echo "MISS mutant   $prop $(basename $patch) (check passed)"; fi
  else
    if [ $rc -eq 0 ]; then echo "ok   refactor $prop $(basename $patch)"; else echo "FALSE-ALARM refactor $prop $(basename $patch): $(echo "$out" | grep -m1 VIOLATION)"; fi
  fi
}
export -f run_one
[ -x "$DIR/bin/govc" ] || (cd "$DIR" && ./build.sh >/dev/null 2>&1)
LIST=$(mktemp)
# SELFTEST_KIND=refactors / mutants restricts the run to one half of the corpus
[ "$SELFTEST_KIND" = refactors ] || for d in "$DIR"/selftest/mutants/*/; do p=$(basename "$d"); [ -n "$ONLY" ] && [ "$ONLY" != "$p" ] && continue
  for f in "$d"*.patch; do [ -f "$f" ] && echo "mutant $p $f" >> "$LIST"; done; done
[ "$SELFTEST_KIND" = mutants ] || for d in "$DIR"/selftest/refactors/*/; do p=$(basename "$d"); [ -n "$ONLY" ] && [ "$ONLY" != "$p" ] && continue
  for f in "$d"*.patch; do [ -f "$f" ] && echo "refactor $p $f" >> "$LIST"; done; done
OUT=$(mktemp)
xargs -P "${SELFTEST_JOBS:-4}" -L 1 bash -c 'run_one "$0" "$1" "$2"' < "$LIST" | tee "$OUT"
n=$(wc -l < "$LIST"); fail=0
grep -q -E '^(MISS|FALSE-ALARM|SELFTEST-ERROR|CORPUS-BUG)' "$OUT" && fail=1
[ "$(wc -l < "$OUT")" -ne "$n" ] && fail=1
rm -f "$LIST" "$OUT"
echo "selftest: $n cases, fail=$fail"
exit $fail
