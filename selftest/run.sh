#!/bin/bash
# selftest: every patch under selftest/mutants/<Cxx>/ must make ./check <Cxx> report a VIOLATION,
# every patch under selftest/refactors/<Cxx>/ must leave it passing. Scratch copies live under $TMPDIR.
DIR="$(cd "$(dirname "$0")/.." && pwd)"
ONLY="$1"
T="${TMPDIR:-/tmp}/govc-selftest-$$"
fail=0; n=0
run_one() { # kind prop patch
  kind=$1; prop=$2; patch=$3
  rm -rf "$T"; mkdir -p "$T"; rsync -a --exclude .git /repo/ "$T/repo/"
  if ! (cd "$T/repo" && patch -p1 -s < "$patch"); then echo "SELFTEST-ERROR $patch does not apply"; fail=1; return; fi
  out=$(cd "$DIR" && VERIF_REPO="$T/repo" VERIF_EVIDENCE_DIR="$T/evidence" ./check "$prop" 2>&1); rc=$?
  n=$((n+1))
  if [ "$kind" = mutant ]; then
    if [ $rc -ne 0 ] && echo "$out" | grep -q '^VIOLATION'; then echo "ok   mutant   $prop $(basename $patch): $(echo "$out" | grep -m1 -o 'obligation=[^ ]*')"
    else echo "MISS mutant   $prop $(basename $patch) (check passed)"; fail=1; fi
  else
    if [ $rc -eq 0 ]; then echo "ok   refactor $prop $(basename $patch)"; else echo "FALSE-ALARM refactor $prop $(basename $patch): $(echo "$out" | grep -m1 VIOLATION)"; fail=1; fi
  fi
}
for d in "$DIR"/selftest/mutants/*/; do p=$(basename "$d"); [ -n "$ONLY" ] && [ "$ONLY" != "$p" ] && continue
  for f in "$d"*.patch; do [ -f "$f" ] && run_one mutant "$p" "$f"; done; done
for d in "$DIR"/selftest/refactors/*/; do p=$(basename "$d"); [ -n "$ONLY" ] && [ "$ONLY" != "$p" ] && continue
  for f in "$d"*.patch; do [ -f "$f" ] && run_one refactor "$p" "$f"; done; done
rm -rf "$T"
echo "selftest: $n cases, fail=$fail"
exit $fail
