// replay-pkg: pkg/object/mqttproxy
package mqttproxy

// BOUNDED stand-in for property C14 (never counted as proved): the subscription trie
// (TopicManager.insert / remove / findSubscribers) is a heap-recursive structure outside the
// engine's subset. All histories of up to `maxOps` subscribe/unsubscribe operations by 2 clients
// over the filter alphabet below are executed on the real TopicManager; after each history every
// topic of the topic alphabet is routed and compared with the MQTT 3.1.1 matching relation
// written directly from the specification (4.7.1), and after unsubscribing everything the trie
// must be back to an empty root. (For C15 the QoS reported for a routed client must also be the highest QoS among
// its matching subscriptions.)

import (
	"fmt"
	"os"
	"strconv"
	"strings"
	"testing"
)

func c14Matches(filter, topic string) bool {
	f := strings.Split(filter, "/")
	t := strings.Split(topic, "/")
	for i, fl := range f {
		if fl == "#" {
			return i == len(f)-1 // matches the remaining levels, including the parent level
		}
		if i >= len(t) {
			return false
		}
		if fl != "+" && fl != t[i] {
			return false
		}
	}
	return len(f) == len(t)
}

type c14Op struct {
	sub    bool
	client int
	filter int
}

func TestBoundedC14Trie(t *testing.T) {
	maxOps := 3
	if v := os.Getenv("GOVC_C14_OPS"); v != "" {
		maxOps, _ = strconv.Atoi(v)
	}
	filters := []string{"a", "a/b", "a/+", "a/#", "+", "#", "+/b", "a/b/c", "a/+/c", "/", "+/+"}
	topics := []string{"a", "b", "a/b", "a/c", "a/b/c", "a/x/c", "/", "", "a/"}
	clients := []string{"c1", "c2"}
	var ops []c14Op
	for _, s := range []bool{true, false} {
		for c := range clients {
			for f := range filters {
				ops = append(ops, c14Op{s, c, f})
			}
		}
	}
	histories, checks := 0, 0
	var run func(prefix []c14Op)
	run = func(prefix []c14Op) {
		// execute the history on a fresh manager
		mgr := newTopicManager(1000)
		live := map[string]map[string]byte{} // client -> filter -> qos
		for i, op := range prefix {
			cid, flt := clients[op.client], filters[op.filter]
			qos := byte(i % 2)
			if op.sub {
				if err := mgr.subscribe([]string{flt}, []byte{qos}, cid); err != nil {
					t.Fatalf("subscribe %q rejected: %v", flt, err)
				}
				if live[cid] == nil {
					live[cid] = map[string]byte{}
				}
				live[cid][flt] = qos
			} else {
				mgr.unsubscribe([]string{flt}, cid)
				delete(live[cid], flt)
			}
		}
		histories++
		for _, topic := range topics {
			got, err := mgr.findSubscribers(topic)
			if err != nil {
				t.Fatalf("findSubscribers(%q): %v", topic, err)
			}
			for _, cid := range clients {
				okQoS := map[byte]bool{}
				for flt, q := range live[cid] {
					if c14Matches(flt, topic) {
						okQoS[q] = true
					}
				}
				q, routed := got[cid]
				checks++
				if routed != (len(okQoS) > 0) {
					t.Fatalf("history %v topic %q client %s: routed=%v but live matching subscriptions=%v", c14Fmt(prefix, clients, filters), topic, cid, routed, okQoS)
				}
				if routed && !okQoS[q] {
					t.Fatalf("history %v topic %q client %s: routed with QoS %d which is not the QoS of one of its matching subscriptions %v", c14Fmt(prefix, clients, filters), topic, cid, q, okQoS)
				}
				// C15: a message of QoS m goes to every client holding a matching subscription with QoS >= m, and
				// sendMsgToClient compares m with the reported QoS: the reported QoS must be the highest one
				if routed && q == 0 && okQoS[1] {
					t.Fatalf("history %v topic %q client %s: routed with QoS 0 although it holds a matching QoS 1 subscription %v", c14Fmt(prefix, clients, filters), topic, cid, okQoS)
				}
			}
		}
		// residue: unsubscribe everything that is live, the trie must be empty again
		for cid, fs := range live {
			for flt := range fs {
				mgr.unsubscribe([]string{flt}, cid)
			}
		}
		if len(mgr.root.nodes) != 0 || len(mgr.root.clients) != 0 {
			t.Fatalf("history %v: residue left in the trie after unsubscribing everything", c14Fmt(prefix, clients, filters))
		}
		if len(prefix) == maxOps {
			return
		}
		for _, op := range ops {
			run(append(append([]c14Op(nil), prefix...), op))
		}
	}
	run(nil)
	fmt.Printf("BOUNDED-C14 histories=%d checks=%d maxOps=%d filters=%d topics=%d\n", histories, checks, maxOps, len(filters), len(topics))
}

func c14Fmt(h []c14Op, clients, filters []string) string {
	var ss []string
	for _, op := range h {
		k := "unsub"
		if op.sub {
			k = "sub"
		}
		ss = append(ss, fmt.Sprintf("%s(%s,%q)", k, clients[op.client], filters[op.filter]))
	}
	return "[" + strings.Join(ss, " ") + "]"
}
