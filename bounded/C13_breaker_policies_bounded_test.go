// replay-pkg: pkg/util/circuitbreaker
package circuitbreaker

// BOUNDED stand-in for property C13 (never counted as proved): the circuit breaker for the policies
// validation accepts but the deductive proof of C08 excludes from its domain - above all
// permittedNumberOfCallsInHalfOpenState: 0 (no schema minimum, Validate() is empty), where the
// half-open window has no bucket. That such a breaker never panics needs a history argument (a result can
// only be recorded for a call that was admitted under the current state id) which the per-call contracts
// do not carry. Here: every history of up to `maxOps` operations - admit a call, complete any admitted
// call (success / failure / slow, possibly late), let the clock pass the wait durations - is executed on the
// real CircuitBreaker under a virtual clock, for every policy of the grid below; no operation may panic,
// and a half-open breaker never admits more calls than the policy permits.

import (
	"fmt"
	"os"
	"strconv"
	"testing"
	"time"
)

type c13Admitted struct {
	id uint32
}

func TestBoundedC13BreakerPolicies(t *testing.T) {
	maxOps := 5
	if v := os.Getenv("GOVC_C13_OPS"); v != "" {
		maxOps, _ = strconv.Atoi(v)
	}
	saved := nowFunc
	defer func() { nowFunc = saved }()

	type pol struct {
		typ       uint8
		size      uint32
		permitted uint32
		minCalls  uint32
		maxWait   time.Duration
	}
	var grid []pol
	for _, typ := range []uint8{CountBased, TimeBased} {
		for _, size := range []uint32{1, 2} {
			for _, permitted := range []uint32{0, 1, 2} {
				for _, minCalls := range []uint32{0, 1, 3} {
					for _, maxWait := range []time.Duration{0, 2 * time.Second} {
						grid = append(grid, pol{typ, size, permitted, minCalls, maxWait})
					}
				}
			}
		}
	}

	histories := 0
	for _, p := range grid {
		// an operation is encoded as an int: 0 = admit; 1 = clock +1s; 2 = clock +5s (past every wait);
		// 3+3k+r = complete the k-th outstanding call with result r (0 success, 1 failure, 2 slow)
		var run func(prefix []int)
		run = func(prefix []int) {
			now := time.Unix(1700000000, 0)
			nowFunc = func() time.Time { return now }
			policy := &Policy{
				FailureRateThreshold:             50,
				SlowCallRateThreshold:            50,
				SlidingWindowType:                p.typ,
				SlidingWindowSize:                p.size,
				PermittedNumberOfCallsInHalfOpen: p.permitted,
				MinimumNumberOfCalls:             p.minCalls,
				SlowCallDurationThreshold:        time.Second,
				MaxWaitDurationInHalfOpen:        p.maxWait,
				WaitDurationInOpen:               3 * time.Second,
			}
			var outstanding []c13Admitted
			halfOpenAdmitted := map[uint32]uint32{} // state id -> calls admitted while half-open under it
			var cb *CircuitBreaker
			ok := func(what string, f func()) (panicked bool) {
				defer func() {
					if r := recover(); r != nil {
						t.Errorf("policy %+v, history %v: %s panicked: %v", p, prefix, what, r)
						panicked = true
					}
				}()
				f()
				return false
			}
			if ok("New", func() { cb = New(policy) }) {
				return
			}
			for _, op := range prefix {
				switch {
				case op == 0:
					if ok("AcquirePermission", func() {
						wasHalfOpen := cb.State() == StateHalfOpen
						permitted, id := cb.AcquirePermission()
						if permitted {
							outstanding = append(outstanding, c13Admitted{id})
							if cb.State() == StateHalfOpen && (wasHalfOpen || true) {
								halfOpenAdmitted[id]++
								if halfOpenAdmitted[id] > p.permitted {
									t.Errorf("policy %+v, history %v: %d calls admitted in half-open state %d, permitted %d", p, prefix, halfOpenAdmitted[id], id, p.permitted)
								}
							}
						}
					}) {
						return
					}
				case op == 1:
					now = now.Add(time.Second)
				case op == 2:
					now = now.Add(5 * time.Second)
				default:
					k, r := (op-3)/3, (op-3)%3
					if k >= len(outstanding) {
						return // not a history (no such outstanding call)
					}
					call := outstanding[k]
					outstanding = append(outstanding[:k:k], outstanding[k+1:]...)
					d := time.Millisecond
					if r == 2 {
						d = 2 * time.Second
					}
					if ok("RecordResult", func() { cb.RecordResult(call.id, r == 1, d) }) {
						return
					}
				}
			}
			histories++
			if len(prefix) == maxOps {
				return
			}
			nOut := len(outstanding)
			for op := 0; op < 3+3*nOut; op++ {
				run(append(append([]int(nil), prefix...), op))
			}
		}
		run(nil)
	}
	fmt.Printf("BOUNDED-C13 breaker policies: %d policies, %d histories of <= %d operations\n", len(grid), histories, maxOps)
}
