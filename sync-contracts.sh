#!/bin/sh
# Copies the contract mirror /verif/contracts/<pkg>/zz_contracts_verif.go into /repo/<pkg>/ and
# commits each changed file as a separate small hook commit (build tag `verif`, comment-only).
set -e
cd /verif/contracts
find . -name zz_contracts_verif.go | sed 's|^\./||' | while read f; do
  if ! cmp -s "$f" "/repo/$f"; then
    cp "$f" "/repo/$f"
    git -C /repo add "$f"
    git -C /repo commit -q -m "verif hook: contracts for $(dirname "$f") (build tag verif, comment-only)" -- "$f"
    echo "synced $f"
  fi
done
