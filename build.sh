#!/bin/sh
# setup_cmd: build the VC generator from /verif/govc, offline, from the module cache only.
set -e
cd "$(dirname "$0")/govc"
export GOFLAGS=-mod=mod GOPROXY=off GOSUMDB=off GOTOOLCHAIN=local CGO_ENABLED=0
mkdir -p ../bin
go build -o ../bin/govc . 
echo "govc built: $(cd .. && pwd)/bin/govc"
