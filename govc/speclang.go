package main

// Contract language: lexer, expression parser, contract-file parser.

import (
	"fmt"
	"strconv"
	"strings"
)

// ---------- expressions ----------

type SKind int

const (
	SIdent SKind = iota
	SIntLit
	SStrLit
	SUnary  // Op, X
	SBinary // Op, X, Y
	SCall   // X (callee: ident or field), Args
	SField  // X . Name
	SIndex  // X [ Y ]
	SSlice  // X [ Y : Z ]  (Y,Z may be nil)
	SQuant  // Op forall/exists, Binders, X body
	SCond   // X ? Y : Z
	SLet    // let Name = X in Y
)

type SBinder struct {
	Name string
	Type *SType
}

type SExpr struct {
	Kind    SKind
	Op      string
	Name    string
	X, Y, Z *SExpr
	Args    []*SExpr
	Binders []SBinder
	Pos     int // byte offset in clause text (for messages)
}

// SType is a type expression in the contract language.
type SType struct {
	Kind string // "name", "ptr", "slice", "map", "set", "seq", "mmap"
	Pkg  string // for name: optional package qualifier
	Name string
	Elem *SType
	Key  *SType
}

func (t *SType) String() string {
	switch t.Kind {
	case "name":
		if t.Pkg != "" {
			return t.Pkg + "." + t.Name
		}
		return t.Name
	case "ptr":
		return "*" + t.Elem.String()
	case "slice":
		return "[]" + t.Elem.String()
	case "map", "mmap":
		return t.Kind + "[" + t.Key.String() + "]" + t.Elem.String()
	default:
		return t.Kind + "[" + t.Elem.String() + "]"
	}
}

func (e *SExpr) String() string {
	if e == nil {
		return "<nil>"
	}
	switch e.Kind {
	case SIdent:
		return e.Name
	case SIntLit:
		return e.Name
	case SStrLit:
		return strconv.Quote(e.Name)
	case SUnary:
		return e.Op + e.X.String()
	case SBinary:
		return "(" + e.X.String() + " " + e.Op + " " + e.Y.String() + ")"
	case SCall:
		var as []string
		for _, a := range e.Args {
			as = append(as, a.String())
		}
		return e.X.String() + "(" + strings.Join(as, ", ") + ")"
	case SField:
		return e.X.String() + "." + e.Name
	case SIndex:
		return e.X.String() + "[" + e.Y.String() + "]"
	case SSlice:
		lo, hi := "", ""
		if e.Y != nil {
			lo = e.Y.String()
		}
		if e.Z != nil {
			hi = e.Z.String()
		}
		return e.X.String() + "[" + lo + ":" + hi + "]"
	case SQuant:
		var bs []string
		for _, b := range e.Binders {
			bs = append(bs, b.Name+" "+b.Type.String())
		}
		return "(" + e.Op + " " + strings.Join(bs, ", ") + " :: " + e.X.String() + ")"
	case SCond:
		return "(" + e.X.String() + " ? " + e.Y.String() + " : " + e.Z.String() + ")"
	case SLet:
		return "(let " + e.Name + " = " + e.X.String() + " in " + e.Y.String() + ")"
	}
	return "?"
}

type tok struct {
	k   string // "id", "int", "str", "op", "eof"
	s   string
	pos int
}

func lexSpec(src string) ([]tok, error) {
	var out []tok
	i := 0
	ops := []string{"<==>", "==>", "::", ":=", "==", "!=", "<=", ">=", "&&", "||", "++", "<<", ">>",
		"+", "-", "*", "/", "%", "<", ">", "!", "(", ")", "[", "]", "{", "}", ",", ".", ":", "?", "=", "&", "|", "^", ";"}
	for i < len(src) {
		c := src[i]
		switch {
		case c == ' ' || c == '\t' || c == '\n' || c == '\r':
			i++
		case c == '/' && i+1 < len(src) && src[i+1] == '/':
			for i < len(src) && src[i] != '\n' {
				i++
			}
		case c == '_' || c == '$' || c >= 'a' && c <= 'z' || c >= 'A' && c <= 'Z':
			j := i + 1
			for j < len(src) && (src[j] == '_' || src[j] == '$' || src[j] >= 'a' && src[j] <= 'z' || src[j] >= 'A' && src[j] <= 'Z' || src[j] >= '0' && src[j] <= '9') {
				j++
			}
			out = append(out, tok{"id", src[i:j], i})
			i = j
		case c >= '0' && c <= '9':
			j := i + 1
			for j < len(src) && (src[j] >= '0' && src[j] <= '9' || src[j] == '_') {
				j++
			}
			out = append(out, tok{"int", strings.ReplaceAll(src[i:j], "_", ""), i})
			i = j
		case c == '"':
			j := i + 1
			for j < len(src) && src[j] != '"' {
				if src[j] == '\\' {
					j++
				}
				j++
			}
			if j >= len(src) {
				return nil, fmt.Errorf("unterminated string at %d", i)
			}
			s, err := strconv.Unquote(src[i : j+1])
			if err != nil {
				return nil, fmt.Errorf("bad string literal at %d: %v", i, err)
			}
			out = append(out, tok{"str", s, i})
			i = j + 1
		default:
			matched := false
			for _, op := range ops {
				if strings.HasPrefix(src[i:], op) {
					out = append(out, tok{"op", op, i})
					i += len(op)
					matched = true
					break
				}
			}
			if !matched {
				return nil, fmt.Errorf("unexpected character %q at %d", c, i)
			}
		}
	}
	out = append(out, tok{"eof", "", len(src)})
	return out, nil
}

type sparser struct {
	toks []tok
	p    int
	src  string
	noIn int
}

func (p *sparser) peek() tok { return p.toks[p.p] }
func (p *sparser) next() tok { t := p.toks[p.p]; p.p++; return t }
func (p *sparser) isOp(s string) bool {
	t := p.peek()
	return t.k == "op" && t.s == s
}
func (p *sparser) isID(s string) bool {
	t := p.peek()
	return t.k == "id" && t.s == s
}
func (p *sparser) accept(s string) bool {
	if p.isOp(s) {
		p.p++
		return true
	}
	return false
}
func (p *sparser) expect(s string) {
	if !p.accept(s) {
		p.fail("expected %q, found %q", s, p.peek().s)
	}
}

type specError struct{ msg string }

func (p *sparser) fail(f string, a ...interface{}) {
	panic(specError{fmt.Sprintf(f, a...) + fmt.Sprintf(" (at offset %d in %q)", p.peek().pos, p.src)})
}

// ParseSpecExpr parses a complete expression.
func ParseSpecExpr(src string) (e *SExpr, err error) {
	toks, err := lexSpec(src)
	if err != nil {
		return nil, err
	}
	p := &sparser{toks: toks, src: src}
	defer func() {
		if r := recover(); r != nil {
			if se, ok := r.(specError); ok {
				err = fmt.Errorf("%s", se.msg)
				return
			}
			panic(r)
		}
	}()
	e = p.expr()
	if p.peek().k != "eof" {
		p.fail("unexpected %q after expression", p.peek().s)
	}
	return e, nil
}

func (p *sparser) expr() *SExpr { return p.iff() }

func (p *sparser) iff() *SExpr {
	x := p.implies()
	for p.isOp("<==>") {
		pos := p.next().pos
		y := p.implies()
		x = &SExpr{Kind: SBinary, Op: "<==>", X: x, Y: y, Pos: pos}
	}
	return x
}

func (p *sparser) implies() *SExpr {
	x := p.cond()
	if p.isOp("==>") {
		pos := p.next().pos
		y := p.implies() // right assoc
		return &SExpr{Kind: SBinary, Op: "==>", X: x, Y: y, Pos: pos}
	}
	return x
}

func (p *sparser) cond() *SExpr {
	x := p.binary(1)
	if p.isOp("?") {
		pos := p.next().pos
		y := p.cond()
		p.expect(":")
		z := p.cond()
		return &SExpr{Kind: SCond, X: x, Y: y, Z: z, Pos: pos}
	}
	return x
}

func binPrec(t tok) int {
	if t.k == "id" && t.s == "in" {
		return 3
	}
	if t.k != "op" {
		return 0
	}
	switch t.s {
	case "||":
		return 1
	case "&&":
		return 2
	case "==", "!=", "<", "<=", ">", ">=":
		return 3
	case "+", "-", "++", "|", "^":
		return 4
	case "*", "/", "%", "<<", ">>", "&":
		return 5
	}
	return 0
}

func (p *sparser) binary(min int) *SExpr {
	x := p.unary()
	for {
		t := p.peek()
		pr := binPrec(t)
		if p.noIn > 0 && t.k == "id" && t.s == "in" {
			pr = 0
		}
		if pr < min || pr == 0 {
			return x
		}
		p.next()
		y := p.binary(pr + 1)
		x = &SExpr{Kind: SBinary, Op: t.s, X: x, Y: y, Pos: t.pos}
	}
}

func (p *sparser) unary() *SExpr {
	t := p.peek()
	if t.k == "op" && (t.s == "!" || t.s == "-" || t.s == "*") {
		p.next()
		x := p.unary()
		return &SExpr{Kind: SUnary, Op: t.s, X: x, Pos: t.pos}
	}
	return p.postfix()
}

func (p *sparser) postfix() *SExpr {
	x := p.primary()
	for {
		t := p.peek()
		switch {
		case p.isOp("."):
			p.next()
			n := p.next()
			if n.k != "id" {
				p.fail("expected field name after '.'")
			}
			x = &SExpr{Kind: SField, X: x, Name: n.s, Pos: t.pos}
		case p.isOp("["):
			p.next()
			var lo, hi *SExpr
			if p.isOp(":") {
				p.next()
				if !p.isOp("]") {
					hi = p.expr()
				}
				p.expect("]")
				x = &SExpr{Kind: SSlice, X: x, Y: nil, Z: hi, Pos: t.pos}
				continue
			}
			lo = p.expr()
			if p.accept(":") {
				if !p.isOp("]") {
					hi = p.expr()
				}
				p.expect("]")
				x = &SExpr{Kind: SSlice, X: x, Y: lo, Z: hi, Pos: t.pos}
				continue
			}
			p.expect("]")
			x = &SExpr{Kind: SIndex, X: x, Y: lo, Pos: t.pos}
		case p.isOp("("):
			p.next()
			var args []*SExpr
			for !p.isOp(")") {
				args = append(args, p.expr())
				if !p.accept(",") {
					break
				}
			}
			p.expect(")")
			x = &SExpr{Kind: SCall, X: x, Args: args, Pos: t.pos}
		default:
			return x
		}
	}
}

func (p *sparser) primary() *SExpr {
	t := p.next()
	switch t.k {
	case "int":
		return &SExpr{Kind: SIntLit, Name: t.s, Pos: t.pos}
	case "str":
		return &SExpr{Kind: SStrLit, Name: t.s, Pos: t.pos}
	case "id":
		switch t.s {
		case "forall", "exists", "lambda":
			var bs []SBinder
			for {
				var names []string
				for {
					n := p.next()
					if n.k != "id" {
						p.fail("expected binder name")
					}
					names = append(names, n.s)
					if !p.accept(",") {
						break
					}
				}
				ty := p.typeExpr()
				for _, n := range names {
					bs = append(bs, SBinder{n, ty})
				}
				if !p.accept(";") {
					break
				}
			}
			p.expect("::")
			body := p.expr()
			return &SExpr{Kind: SQuant, Op: t.s, Binders: bs, X: body, Pos: t.pos}
		case "let":
			n := p.next()
			p.expect("=")
			p.noIn++
			x := p.expr()
			p.noIn--
			if !p.isID("in") {
				p.fail("expected 'in'")
			}
			p.next()
			y := p.expr()
			return &SExpr{Kind: SLet, Name: n.s, X: x, Y: y, Pos: t.pos}
		}
		return &SExpr{Kind: SIdent, Name: t.s, Pos: t.pos}
	case "op":
		if t.s == "(" {
			save := p.noIn
			p.noIn = 0
			x := p.expr()
			p.noIn = save
			p.expect(")")
			return x
		}
	}
	p.p--
	p.fail("unexpected token %q", t.s)
	return nil
}

func (p *sparser) typeExpr() *SType {
	switch {
	case p.accept("*"):
		return &SType{Kind: "ptr", Elem: p.typeExpr()}
	case p.isOp("["):
		p.next()
		p.expect("]")
		return &SType{Kind: "slice", Elem: p.typeExpr()}
	}
	t := p.next()
	if t.k != "id" {
		p.fail("expected type")
	}
	switch t.s {
	case "map", "mmap":
		p.expect("[")
		k := p.typeExpr()
		p.expect("]")
		return &SType{Kind: t.s, Key: k, Elem: p.typeExpr()}
	case "set", "seq":
		p.expect("[")
		e := p.typeExpr()
		p.expect("]")
		return &SType{Kind: t.s, Elem: e}
	}
	if p.isOp(".") {
		p.next()
		n := p.next()
		return &SType{Kind: "name", Pkg: t.s, Name: n.s}
	}
	return &SType{Kind: "name", Name: t.s}
}

// ---------- contract files ----------

type Clause struct {
	Kind string // requires, ensures, modifies, invariant, decreases, panics_only_if, assume_inv, ghost
	Idx  int    // loop ordinal for invariant/decreases (1-based), 0 otherwise
	Text string
	Expr *SExpr
	Locs []*SExpr // modifies
	// ghost update: Where ("return", "call[k] name"), Target, Value
	Where  string
	Target *SExpr
	Name   string // optional label for ensures / invariant: `ensures name: expr`
	Line   int
}

type ParamDecl struct {
	Name string
	Type *SType
}

type FuncContract struct {
	Key      string // "Recv.Name" or "Name"
	RecvName string
	RecvType string
	Name     string
	Params   []string // names, positional
	Results  []string
	Clauses  []*Clause
	Closures map[int]*FuncContract
	Inline   bool
	Trusted  bool
	Pure     bool
	Flags    map[string]string
	File     string
	Line     int
	External string // import path for `model`
	ParamTypes  []*SType
	ResultTypes []*SType
}

type PredDecl struct {
	Name   string
	Params []ParamDecl
	Result *SType // nil = inferred (macro)
	Body   *SExpr // nil for uninterpreted
	File   string
	Line   int
}

type GhostField struct {
	Type  string // struct type name
	Name  string
	SType *SType
}

type GhostVar struct {
	Name  string
	SType *SType
}

type TypeInv struct {
	Type string
	Name string
	Self string
	Expr *SExpr
	Text string
}

type Guarded struct {
	Type   string
	Fields []string
	Lock   string
}

type NamedFormula struct {
	Name string
	Expr *SExpr
	Text string
	Hint string
}

type ContractFile struct {
	Path    string
	Funcs   []*FuncContract
	Preds   []*PredDecl
	GFields []GhostField
	GVars   []GhostVar
	Invs    []TypeInv
	Guards  []Guarded
	Axioms  []NamedFormula
	Lemmas  []NamedFormula
}

var clauseKeywords = map[string]bool{
	"requires": true, "ensures": true, "modifies": true, "invariant": true, "decreases": true,
	"panics_only_if": true, "ghost": true, "pred": true, "ufunc": true, "axiom": true, "lemma": true,
	"type": true, "guarded": true, "func": true, "model": true, "inline": true, "trusted": true,
	"pure": true, "closure": true, "end": true, "flag": true, "assume": true, "iface": true, "assert": true, "hint": true,
}

// extractSpecBlocks returns the text inside /*@ ... @*/ blocks with line numbers preserved.
func extractSpecBlocks(src string) string {
	var b strings.Builder
	rest := src
	line := 0
	for {
		i := strings.Index(rest, "/*@")
		if i < 0 {
			break
		}
		line += strings.Count(rest[:i], "\n")
		rest = rest[i+3:]
		j := strings.Index(rest, "@*/")
		if j < 0 {
			j = len(rest)
		}
		cur := strings.Count(b.String(), "\n")
		for cur < line {
			b.WriteByte('\n')
			cur++
		}
		b.WriteString(rest[:j])
		line += strings.Count(rest[:j], "\n")
		if j+3 <= len(rest) {
			rest = rest[j+3:]
		} else {
			rest = ""
		}
	}
	return b.String()
}

type rawItem struct {
	kw   string
	text string
	line int
}

func splitItems(text string) []rawItem {
	var items []rawItem
	lines := strings.Split(text, "\n")
	for i, ln := range lines {
		trim := strings.TrimSpace(ln)
		if trim == "" || strings.HasPrefix(trim, "//") {
			continue
		}
		// strip trailing comment
		if k := strings.Index(ln, "//"); k >= 0 && !strings.Contains(ln[:k], "\"") {
			ln = ln[:k]
			trim = strings.TrimSpace(ln)
		}
		word := trim
		if k := strings.IndexAny(trim, " \t[({:"); k >= 0 {
			word = trim[:k]
		}
		if clauseKeywords[word] {
			items = append(items, rawItem{kw: word, text: strings.TrimSpace(trim[len(word):]), line: i + 1})
		} else if len(items) > 0 {
			items[len(items)-1].text += "\n" + trim
		}
	}
	return items
}

// ParseContractFile parses the /*@ @*/ blocks of a Go source text.
func ParseContractFile(path, src string) (cf *ContractFile, err error) {
	cf = &ContractFile{Path: path}
	items := splitItems(extractSpecBlocks(src))
	var cur *FuncContract
	var stack []*FuncContract
	fail := func(it rawItem, f string, a ...interface{}) {
		panic(specError{fmt.Sprintf("%s:%d: ", path, it.line) + fmt.Sprintf(f, a...)})
	}
	defer func() {
		if r := recover(); r != nil {
			if se, ok := r.(specError); ok {
				err = fmt.Errorf("%s", se.msg)
				return
			}
			panic(r)
		}
	}()
	pe := func(it rawItem, s string) *SExpr {
		e, err := ParseSpecExpr(s)
		if err != nil {
			fail(it, "%v", err)
		}
		return e
	}
	for _, it := range items {
		switch it.kw {
		case "func", "model", "iface":
			fc := parseFuncHeader(it, fail)
			fc.File = path
			fc.Line = it.line
			if it.kw == "model" {
				fc.Trusted = true
			}
			cf.Funcs = append(cf.Funcs, fc)
			cur = fc
			stack = nil
		case "closure":
			if cur == nil {
				fail(it, "closure outside func")
			}
			// closure[k] (params) (results)
			t := it.text
			if !strings.HasPrefix(t, "[") {
				fail(it, "expected closure[k]")
			}
			j := strings.Index(t, "]")
			k, e := strconv.Atoi(strings.TrimSpace(t[1:j]))
			if e != nil {
				fail(it, "bad closure ordinal")
			}
			hdr := rawItem{kw: "func", text: "closure" + strings.TrimSpace(t[j+1:]), line: it.line}
			fc := parseFuncHeader(hdr, fail)
			fc.File = path
			fc.Line = it.line
			if cur.Closures == nil {
				cur.Closures = map[int]*FuncContract{}
			}
			cur.Closures[k] = fc
			stack = append(stack, cur)
			cur = fc
		case "end":
			if len(stack) == 0 {
				fail(it, "end without closure")
			}
			cur = stack[len(stack)-1]
			stack = stack[:len(stack)-1]
		case "requires", "ensures", "panics_only_if", "assume", "assert":
			if cur == nil {
				fail(it, "%s outside func", it.kw)
			}
			name, text := splitLabel(it.text)
			cur.Clauses = append(cur.Clauses, &Clause{Kind: it.kw, Text: text, Expr: pe(it, text), Name: name, Line: it.line})
		case "invariant", "decreases", "hint":
			if cur == nil {
				fail(it, "%s outside func", it.kw)
			}
			t := it.text
			idx := 1
			if strings.HasPrefix(t, "[") {
				j := strings.Index(t, "]")
				k, e := strconv.Atoi(strings.TrimSpace(t[1:j]))
				if e != nil {
					fail(it, "bad loop ordinal")
				}
				idx = k
				t = strings.TrimSpace(t[j+1:])
			}
			name, text := splitLabel(t)
			cur.Clauses = append(cur.Clauses, &Clause{Kind: it.kw, Idx: idx, Text: text, Expr: pe(it, text), Name: name, Line: it.line})
		case "modifies":
			if cur == nil {
				fail(it, "modifies outside func")
			}
			c := &Clause{Kind: "modifies", Text: it.text, Line: it.line}
			if strings.TrimSpace(it.text) != "" && strings.TrimSpace(it.text) != "nothing" {
				for _, part := range splitTop(it.text, ',') {
					c.Locs = append(c.Locs, pe(it, part))
				}
			}
			cur.Clauses = append(cur.Clauses, c)
		case "inline":
			cur.Inline = true
		case "trusted":
			cur.Trusted = true
		case "pure":
			cur.Pure = true
		case "flag":
			if cur.Flags == nil {
				cur.Flags = map[string]string{}
			}
			kv := strings.SplitN(it.text, "=", 2)
			if len(kv) == 2 {
				cur.Flags[strings.TrimSpace(kv[0])] = strings.TrimSpace(kv[1])
			} else {
				cur.Flags[strings.TrimSpace(kv[0])] = "true"
			}
		case "ghost":
			t := it.text
			switch {
			case strings.HasPrefix(t, "field "):
				// ghost field T.name Type
				rest := strings.TrimSpace(t[6:])
				sp := strings.IndexAny(rest, " \t")
				tn := rest[:sp]
				dot := strings.Index(tn, ".")
				ty := parseTypeText(it, strings.TrimSpace(rest[sp:]), fail)
				cf.GFields = append(cf.GFields, GhostField{Type: tn[:dot], Name: tn[dot+1:], SType: ty})
			case strings.HasPrefix(t, "var "):
				rest := strings.TrimSpace(t[4:])
				sp := strings.IndexAny(rest, " \t")
				ty := parseTypeText(it, strings.TrimSpace(rest[sp:]), fail)
				cf.GVars = append(cf.GVars, GhostVar{Name: rest[:sp], SType: ty})
			case strings.HasPrefix(t, "at "):
				// ghost at <where>: target := value
				if cur == nil {
					fail(it, "ghost at outside func")
				}
				rest := strings.TrimSpace(t[3:])
				col := strings.Index(rest, ":")
				where := strings.TrimSpace(rest[:col])
				asg := strings.TrimSpace(rest[col+1:])
				k := strings.Index(asg, ":=")
				if k < 0 {
					fail(it, "ghost update needs :=")
				}
				cur.Clauses = append(cur.Clauses, &Clause{Kind: "ghost", Where: where, Target: pe(it, asg[:k]), Expr: pe(it, asg[k+2:]), Text: asg, Line: it.line})
			default:
				fail(it, "bad ghost declaration")
			}
		case "pred", "ufunc":
			// pred name(a T, b U) [R] := expr    |  ufunc name(a T) R
			t := it.text
			op := strings.Index(t, "(")
			name := strings.TrimSpace(t[:op])
			cl := matchParen(t, op)
			if cl < 0 {
				fail(it, "unbalanced parens in %s", it.kw)
			}
			pd := &PredDecl{Name: name, File: path, Line: it.line}
			for _, part := range splitTop(t[op+1:cl], ',') {
				part = strings.TrimSpace(part)
				if part == "" {
					continue
				}
				sp := strings.IndexAny(part, " \t")
				if sp < 0 {
					fail(it, "parameter %q needs a type", part)
				}
				pd.Params = append(pd.Params, ParamDecl{part[:sp], parseTypeText(it, strings.TrimSpace(part[sp:]), fail)})
			}
			rest := strings.TrimSpace(t[cl+1:])
			if k := strings.Index(rest, ":="); k >= 0 {
				if rt := strings.TrimSpace(rest[:k]); rt != "" {
					pd.Result = parseTypeText(it, rt, fail)
				}
				pd.Body = pe(it, rest[k+2:])
			} else {
				if rest == "" {
					fail(it, "ufunc needs a result type")
				}
				pd.Result = parseTypeText(it, rest, fail)
			}
			if it.kw == "ufunc" && pd.Body != nil {
				fail(it, "ufunc has no body")
			}
			cf.Preds = append(cf.Preds, pd)
		case "axiom", "lemma":
			name, text := splitLabel(it.text)
			nf := NamedFormula{Name: name, Text: text, Expr: pe(it, text)}
			if it.kw == "axiom" {
				cf.Axioms = append(cf.Axioms, nf)
			} else {
				cf.Lemmas = append(cf.Lemmas, nf)
			}
		case "type":
			// type T invariant [name:] (self) expr   -- self variable is named "self"
			f := strings.Fields(it.text)
			if len(f) < 3 || f[1] != "invariant" {
				fail(it, "expected: type T invariant expr")
			}
			rest := strings.TrimSpace(it.text[strings.Index(it.text, "invariant")+len("invariant"):])
			name, text := splitLabel(rest)
			cf.Invs = append(cf.Invs, TypeInv{Type: f[0], Name: name, Self: "self", Expr: pe(it, text), Text: text})
			cur = nil
		case "guarded":
			// guarded T.{a,b,c} by lock
			t := it.text
			dot := strings.Index(t, ".")
			lb := strings.Index(t, "{")
			rb := strings.Index(t, "}")
			by := strings.LastIndex(t, " by ")
			if dot < 0 || lb < 0 || rb < 0 || by < 0 {
				fail(it, "expected: guarded T.{f,g} by lock")
			}
			g := Guarded{Type: strings.TrimSpace(t[:dot]), Lock: strings.TrimSpace(t[by+4:])}
			for _, f := range strings.Split(t[lb+1:rb], ",") {
				g.Fields = append(g.Fields, strings.TrimSpace(f))
			}
			cf.Guards = append(cf.Guards, g)
			cur = nil
		}
	}
	return cf, nil
}

// splitLabel splits "name: expr" (label is an identifier directly followed by ':' and not '::' or ':=').
func splitLabel(t string) (string, string) {
	t = strings.TrimSpace(t)
	i := 0
	for i < len(t) && (t[i] == '_' || t[i] == '.' || t[i] == '-' || t[i] == '@' || t[i] >= 'a' && t[i] <= 'z' || t[i] >= 'A' && t[i] <= 'Z' || t[i] >= '0' && t[i] <= '9') {
		i++
	}
	if i > 0 && i < len(t) && t[i] == ':' && !(i+1 < len(t) && (t[i+1] == ':' || t[i+1] == '=')) {
		return t[:i], strings.TrimSpace(t[i+1:])
	}
	return "", t
}

func matchParen(s string, open int) int {
	depth := 0
	for i := open; i < len(s); i++ {
		switch s[i] {
		case '(', '[', '{':
			depth++
		case ')', ']', '}':
			depth--
			if depth == 0 {
				return i
			}
		}
	}
	return -1
}

func splitTop(s string, sep byte) []string {
	var out []string
	depth := 0
	start := 0
	for i := 0; i < len(s); i++ {
		switch s[i] {
		case '(', '[', '{':
			depth++
		case ')', ']', '}':
			depth--
		default:
			if s[i] == sep && depth == 0 {
				out = append(out, s[start:i])
				start = i + 1
			}
		}
	}
	out = append(out, s[start:])
	return out
}

func parseTypeText(it rawItem, s string, fail func(rawItem, string, ...interface{})) *SType {
	toks, err := lexSpec(s)
	if err != nil {
		fail(it, "%v", err)
	}
	p := &sparser{toks: toks, src: s}
	var ty *SType
	func() {
		defer func() {
			if r := recover(); r != nil {
				if se, ok := r.(specError); ok {
					fail(it, "%s", se.msg)
				}
				panic(r)
			}
		}()
		ty = p.typeExpr()
	}()
	return ty
}

// parseFuncHeader parses "(r *T) Name(a A, b B) (x X, y Y)" / "Name(a A) R" / `"import/path".Name(...)`.
func parseFuncHeader(it rawItem, fail func(rawItem, string, ...interface{})) *FuncContract {
	t := strings.TrimSpace(it.text)
	fc := &FuncContract{}
	if strings.HasPrefix(t, "\"") {
		j := strings.Index(t[1:], "\"")
		fc.External = t[1 : 1+j]
		t = strings.TrimPrefix(strings.TrimSpace(t[j+2:]), ".")
	}
	if strings.HasPrefix(t, "(") {
		cl := matchParen(t, 0)
		recv := strings.Fields(strings.TrimSpace(t[1:cl]))
		if len(recv) == 2 {
			fc.RecvName = recv[0]
			fc.RecvType = strings.TrimPrefix(recv[1], "*")
		} else if len(recv) == 1 {
			fc.RecvType = strings.TrimPrefix(recv[0], "*")
		} else {
			fail(it, "bad receiver")
		}
		t = strings.TrimSpace(t[cl+1:])
	}
	op := strings.Index(t, "(")
	if op < 0 {
		fail(it, "expected parameter list in func header")
	}
	fc.Name = strings.TrimSpace(t[:op])
	cl := matchParen(t, op)
	if cl < 0 {
		fail(it, "unbalanced parens in func header")
	}
	parseParams := func(s string) (names []string, tys []*SType) {
		for _, part := range splitTop(s, ',') {
			part = strings.TrimSpace(part)
			if part == "" {
				continue
			}
			f := strings.Fields(part)
			names = append(names, f[0])
			if len(f) > 1 {
				tys = append(tys, parseTypeTextLenient(strings.TrimSpace(part[len(f[0]):])))
			} else {
				tys = append(tys, nil)
			}
		}
		return
	}
	fc.Params, fc.ParamTypes = parseParams(t[op+1 : cl])
	rest := strings.TrimSpace(t[cl+1:])
	if strings.HasPrefix(rest, "(") {
		c2 := matchParen(rest, 0)
		fc.Results, fc.ResultTypes = parseParams(rest[1:c2])
	} else if rest != "" {
		// single unnamed result type: named "result"
		fc.Results = []string{"result"}
		fc.ResultTypes = []*SType{parseTypeTextLenient(rest)}
	}
	if fc.RecvType != "" {
		fc.Key = fc.RecvType + "." + fc.Name
	} else {
		fc.Key = fc.Name
	}
	if fc.External != "" {
		fc.Key = fc.External + "." + fc.Key
	}
	return fc
}

// parseTypeTextLenient parses a type if it is in the contract type grammar, else returns nil
// (headers may mention Go types the grammar does not cover, e.g. func types; they are
// only documentation because parameters are bound positionally to the real signature).
func parseTypeTextLenient(s string) (ty *SType) {
	toks, err := lexSpec(s)
	if err != nil {
		return nil
	}
	p := &sparser{toks: toks, src: s}
	defer func() {
		if r := recover(); r != nil {
			ty = nil
		}
	}()
	ty = p.typeExpr()
	if p.peek().k != "eof" {
		return nil
	}
	return ty
}
