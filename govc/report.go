package main

// Evidence, VIOLATION / KNOWN-FINDING lines, exit status.

import (
	"encoding/json"
	"fmt"
	"os"
	"os/exec"
	"path/filepath"
	"sort"
	"strings"
	"time"
)

type Report struct {
	ID     string
	Tier   string
	Seed   int
	cfg    *PropConfig
	verif  string
	repo   string
	outDir string
	t0     time.Time
	loadS  float64
	reg    *Registry
	Funcs  []FuncReport
	detached []FuncReport
	results []*SolveResult
	stretch map[string]bool
	engineErr string
	bounded []map[string]interface{}
	boundedFailed bool
	violations []string
}

func (r *Report) engineFailure(msg string) { r.engineErr = msg }

// runBounded executes a bounded stand-in (an in-package Go test injected with -overlay). Its cases
// are reported under coverage.bounded_checks and are never counted as proof obligations.
func (r *Report) runBounded(bc BoundedCheck, thorough bool) {
	env, bound := bc.Env, bc.Bound
	if thorough && bc.EnvThorough != "" {
		env, bound = bc.EnvThorough, bc.BoundThorough
	}
	test := filepath.Join(r.verif, bc.Test)
	cmd := exec.Command("sh", filepath.Join(r.verif, "replay", "run_overlay.sh"), bc.Pkg, test, "-run", bc.Run, "-v")
	cmd.Env = append(os.Environ(), "VERIF_REPO="+r.repo, "GOVC_TIMEOUT=1500s")
	if env != "" {
		cmd.Env = append(cmd.Env, env)
	}
	t0 := time.Now()
	out, err := cmd.CombinedOutput()
	res := map[string]interface{}{"name": bc.Name, "bound": bound, "label": "bounded (not a proof)", "test": bc.Test, "time_s": round3(time.Since(t0).Seconds())}
	for _, ln := range strings.Split(string(out), "\n") {
		if strings.HasPrefix(ln, "BOUNDED-") {
			res["summary"] = strings.TrimSpace(ln)
		}
	}
	if err != nil || !strings.Contains(string(out), "\nok") && !strings.HasPrefix(string(out), "ok") {
		res["result"] = "FAILED"
		f := filepath.Join(r.outDir, "replay", sanitizeFile("bounded-"+bc.Name)+".txt")
		os.MkdirAll(filepath.Dir(f), 0o755)
		os.WriteFile(f, []byte("bounded check "+bc.Name+" failed (replay with: ./check --replay "+test+")\n\n"+string(out)), 0o644)
		fmt.Printf("VIOLATION property=%s replay=%s obligation=bounded:%s\n", r.ID, test, bc.Name)
		r.violations = append(r.violations, "bounded:"+bc.Name)
		r.boundedFailed = true
	} else {
		res["result"] = "passed"
	}
	r.bounded = append(r.bounded, res)
}

type KnownFinding struct {
	Property   string `json:"property"`
	Obligation string `json:"obligation"`
	When       string `json:"when,omitempty"`
	What       string `json:"what"`
	Status     string `json:"status"` // known | fixed
	Commit     string `json:"commit,omitempty"`
	Replay     string `json:"replay,omitempty"` // in-package test (relative to /verif) that fails on a tree with this defect
}

func loadKnownFindings(verif string) []KnownFinding {
	var kf []KnownFinding
	b, err := os.ReadFile(filepath.Join(verif, "known_findings.json"))
	if err != nil {
		return nil
	}
	var wrap struct {
		Findings []KnownFinding `json:"findings"`
	}
	if json.Unmarshal(b, &wrap) == nil {
		kf = wrap.Findings
	}
	return kf
}

func (r *Report) finish() int {
	wall := time.Since(r.t0).Seconds()
	exit := 0
	replayDir := filepath.Join(r.outDir, "replay")
	os.MkdirAll(replayDir, 0o755)
	replayOverride := ""
	violation := func(name, detail, body string, noInput bool) {
		exit = 1
		f := filepath.Join(replayDir, sanitizeFile(name)+".txt")
		os.WriteFile(f, []byte("failed obligation: "+name+"\nproperty: "+r.ID+"\n"+detail+"\n\n"+body), 0o644)
		if replayOverride != "" {
			// a recorded in-package test reproduces the violation on the real code: that test is the replay
			// (the .txt file with the obligation and the solver output stays next to it)
			f = replayOverride
			replayOverride = ""
		}
		line := fmt.Sprintf("VIOLATION property=%s replay=%s obligation=%s", r.ID, f, name)
		if noInput {
			line += " no-failing-input-found"
		}
		fmt.Println(line)
		r.violations = append(r.violations, name)
	}
	if r.engineErr != "" {
		violation("engine", r.engineErr, "", true)
	}
	for _, d := range r.detached {
		violation(d.Name+"/contract", d.Error, "the function could not be checked against its contract: the property is no longer shown", true)
	}
	known := loadKnownFindings(r.verif)
	knownSeen := []string{}
	total, discharged := 0, 0
	byBackend := map[string]int{}
	solverTime := 0.0
	vacuity := 0
	var samples []map[string]interface{}
	var slow []*SolveResult
	extraTotal, extraOK := 0, 0
	for _, s := range r.results {
		solverTime += s.TimeS
		if s.Kind == "vacuity" || s.Kind == "cover" {
			vacuity++
			if s.Status == "vacuous" {
				violation(s.Name, "vacuity check failed: "+s.Detail, "", true)
			}
			continue
		}
		if r.stretch[s.Name] {
			extraTotal++
			if s.Status == "discharged" {
				extraOK++
			} else {
				fmt.Printf("EXTRA (stretch, not claimed) undischarged: %s: %s\n", s.Name, s.Detail)
			}
			continue
		}
		total++
		slow = append(slow, s)
		if s.Status == "discharged" {
			discharged++
			byBackend[s.Solver]++
			if len(samples) < 6 && (s.Kind == "ensures" || s.Kind == "inv" || len(samples) < 2) {
				samples = append(samples, map[string]interface{}{"obligation": s.Name, "kind": s.Kind, "result": "unsat", "solver": s.Solver, "path_queries": s.Queries, "smt_bytes": s.Size})
			}
			continue
		}
		// failed or unknown: known finding?
		isKnown := false
		for _, k := range known {
			if k.Property == r.ID && k.Status == "known" && k.Obligation == s.Name && k.When == "" {
				isKnown = true
				fmt.Printf("KNOWN-FINDING: property=%s %s\n", r.ID, k.What)
				knownSeen = append(knownSeen, k.Obligation)
			}
		}
		if isKnown {
			total--
			continue
		}
		body := ""
		noInput := true
		if s.Status == "failed" && s.Model != "" {
			body = "solver output (" + s.Solver + "):\n" + s.Model
		} else {
			body = "solver output: " + s.Detail
		}
		if file, out, ok := recordedReplay(r, known, s.Name); ok {
			body = "recorded replay " + file + " FAILS on this tree (go test -overlay, real code):\n" + out + "\n" + body
			noInput = false
			replayOverride = file
		}
		violation(s.Name, fmt.Sprintf("status=%s smt=%s", s.Status, s.File), body, noInput)
	}
	sort.Slice(slow, func(i, j int) bool { return slow[i].TimeS > slow[j].TimeS })
	var slowest []map[string]interface{}
	for i := 0; i < len(slow) && i < 5; i++ {
		slowest = append(slowest, map[string]interface{}{"obligation": slow[i].Name, "time_s": round3(slow[i].TimeS), "solver": slow[i].Solver})
	}
	// evidence
	var trusted, assumptions []string
	var inlined []string
	dropped := map[string]int{}
	contractsFrom := map[string]string{}
	if r.reg != nil {
		trusted = sortedKeys(r.reg.trustedUsed)
		assumptions = sortedKeys(r.reg.assumptions)
		inlined = sortedKeys(r.reg.inlined)
		dropped = r.reg.dropped
		for p, from := range r.reg.contractSource {
			contractsFrom[strings.TrimPrefix(p, modulePath+"/")] = from + ":" + r.reg.contractHash[p]
		}
	}
	trusted = append(trusted, "govc VC generator (Go semantics as encoded, see DESIGN.md 2.3)", "SMT solvers z3 5.1.0 (z3-new), cvc5 1.0, z3 4.8.12")
	assumptions = append(assumptions, r.cfg.Notes...)
	for _, n := range r.cfg.NotCovered {
		assumptions = append(assumptions, "not covered: "+n)
	}
	if len(samples) == 0 {
		samples = append(samples, map[string]interface{}{"note": "no obligation discharged"})
	}
	cov := map[string]interface{}{
		"obligations": total, "discharged": discharged,
		"checker_cmd":  fmt.Sprintf("/verif/check %s (govc -prop %s; portfolio z3-new | cvc5 --strings-exp | z3)", r.ID, r.ID),
		"trusted_base": trusted,
		"functions_under_contract": r.Funcs,
		"by_backend": byBackend, "solver_time_s": round3(solverTime), "slowest": slowest,
		"vacuity_checks": vacuity, "inlined_callees": inlined, "dropped_calls": dropped,
		"contracts_from": contractsFrom, "known_findings_seen": knownSeen,
		"bounded_checks": r.bounded, "samples": samples,
		"extra_stretch_obligations": map[string]int{"total": extraTotal, "discharged": extraOK},
		"load_s": round3(r.loadS),
		"integers": "mathematical Int; machine-arithmetic assumptions listed per function unless `flag overflow=check`",
	}
	ev := map[string]interface{}{
		"property_id": r.ID, "tier": r.Tier, "seed": r.Seed, "level": "proof", "coverage": cov,
		"assumptions": assumptions, "wall_s": round3(wall), "violations": len(r.violations),
	}
	eb, _ := json.MarshalIndent(ev, "", " ")
	evDir := filepath.Join(r.verif, "evidence")
	if d := os.Getenv("VERIF_EVIDENCE_DIR"); d != "" {
		evDir = d
	}
	os.MkdirAll(evDir, 0o755)
	os.WriteFile(filepath.Join(evDir, r.ID+".json"), eb, 0o644)
	fmt.Printf("%s %s: %d/%d obligations discharged, %d functions, %d vacuity checks, %.1fs (load %.1fs)\n", r.ID, r.Tier, discharged, total, len(r.Funcs), vacuity, wall, r.loadS)
	if r.boundedFailed {
		exit = 1
	}
	if total == 0 && exit == 0 {
		fmt.Printf("VIOLATION property=%s replay=%s no obligations generated no-failing-input-found\n", r.ID, replayDir)
		exit = 1
	}
	return exit
}

func round3(f float64) float64 { return float64(int(f*1000+0.5)) / 1000 }

// recordedReplay: when a failed obligation is one for which known_findings.json records an in-package
// replay test (a defect found earlier through exactly this obligation), that test is run against the
// tree under check; if it fails there, it is a concrete failing input for the violation.
var replayRan = map[string]string{}

func recordedReplay(r *Report, known []KnownFinding, obligation string) (string, string, bool) {
	base := obligation
	for _, k := range known {
		if k.Property != r.ID || k.Replay == "" {
			continue
		}
		if k.Obligation != base && !strings.HasPrefix(base, k.Obligation+".") && !strings.HasPrefix(k.Obligation, base+".") {
			continue
		}
		file := filepath.Join(r.verif, k.Replay)
		out, done := replayRan[file]
		if !done {
			cmd := exec.Command("sh", filepath.Join(r.verif, "replay.sh"), file)
			cmd.Env = append(os.Environ(), "VERIF_REPO="+r.repo, "GOVC_TIMEOUT=120s")
			b, _ := cmd.CombinedOutput()
			out = string(b)
			replayRan[file] = out
		}
		if strings.Contains(out, "--- FAIL") || strings.Contains(out, "panic:") {
			if len(out) > 4000 {
				out = out[:4000] + "\n..."
			}
			return file, out, true
		}
	}
	return "", "", false
}
