package main

// Per-function verification driver, lemmas and axioms.

import (
	"fmt"
	"os"
	"go/ast"
	"go/types"
	"sort"
	"strings"
)

type FuncReport struct {
	Name        string `json:"name"`
	Pkg         string `json:"pkg"`
	Key         string `json:"key"`
	SourceHash  string `json:"source_hash"`
	Paths       int    `json:"return_paths"`
	Obligations int    `json:"obligations"`
	Error       string `json:"error,omitempty"`
}

// verifyFunc generates the obligations of one function under contract.
func verifyFunc(reg *Registry, pkgRel, key string, closureOrd int) (rep FuncReport, obls []*Obligation) {
	pkgPath := modulePath + "/" + pkgRel
	rep = FuncReport{Pkg: pkgRel, Key: key}
	fn, decl, pkg := reg.findFunc(pkgPath, key)
	if fn == nil {
		rep.Name = pkgRel + "." + key
		rep.Error = "contract-detached:function-not-found"
		return
	}
	name := pkg.Name + "." + displayKey(fn)
	rep.Name = name
	rep.SourceHash = reg.sourceHash(decl)
	c := reg.contracts[pkgPath+"."+key]
	if c == nil {
		rep.Error = "contract-detached:no-contract"
		return
	}
	fc := &fctx{reg: reg, name: name, contract: c, paramVals: map[string]*Value{}, ghostCalls: map[string]int{}, capturedEntry: map[string]*Value{}}
	defer func() {
		if r := recover(); r != nil {
			if os.Getenv("GOVC_DEBUG") != "" {
				panic(r)
			}
			switch e := r.(type) {
			case unsupportedErr:
				rep.Error = "contract-detached:unsupported-construct: " + e.what
			case specError:
				rep.Error = "contract-detached:spec: " + e.msg
			default:
				panic(r)
			}
			obls = fc.obls
		}
	}()
	sig := fn.Type().(*types.Signature)
	fr := &frame{fc: fc, pkg: pkg, info: pkg.TypesInfo, fn: fn, sig: sig, contract: c}
	fr.ords, fr.loopOrd, fr.litOrd, fr.callOrd = computeOrdinals(decl.Body, pkg.TypesInfo)
	if closureOrd == 0 {
		if note := rebindLoops(pkgRel+":"+key, c, fr.loopOrd); note != "" {
			reg.assumptions[name+": "+note] = true
		}
	}
	if note := rebindLits(pkgRel+":"+key, c, fr.litOrd); note != "" {
		reg.assumptions[name+": "+note] = true
	}
	if closureOrd == 0 {
		if k := danglingInvariant(c, fr.loopOrd); k > 0 {
			rep.Error = fmt.Sprintf("contract-detached:invariant[%d] names a loop the function no longer has (%d loops)", k, len(fr.loopOrd))
			return
		}
	}
	fc.root = fr
	st := newState()
	// symbolic inputs
	var recv *Value
	if sig.Recv() != nil {
		recv = freshInput(st, sig.Recv().Type(), "in:"+nonEmpty(c.RecvName, "recv"))
		if c.RecvName != "" {
			fc.paramVals[c.RecvName] = recv
		}
	}
	var args []*Value
	for i := 0; i < sig.Params().Len(); i++ {
		pn := sig.Params().At(i).Name()
		if i < len(c.Params) {
			pn = c.Params[i]
		}
		v := freshInput(st, sig.Params().At(i).Type(), "in:"+pn)
		args = append(args, v)
		if i < len(c.Params) && c.Params[i] != "_" {
			fc.paramVals[c.Params[i]] = v
		}
	}
	if len(c.Params) != sig.Params().Len() {
		rep.Error = fmt.Sprintf("contract-detached:signature-changed (contract has %d parameters, function has %d)", len(c.Params), sig.Params().Len())
		return
	}
	if len(c.Results) != 0 && len(c.Results) != sig.Results().Len() {
		rep.Error = fmt.Sprintf("contract-detached:signature-changed (contract has %d results, function has %d)", len(c.Results), sig.Results().Len())
		return
	}
	fc.resNames = c.Results
	fr.bindParams(st, decl.Recv, decl.Type, sig, recv, args)
	body := decl.Body
	if closureOrd > 0 {
		// verify the k-th function literal of the function as a unit of its own: the enclosing
		// function's receiver and parameters are its (symbolic) captured variables
		var lit *ast.FuncLit
		for l, k := range fr.litOrd {
			if k == closureOrd {
				lit = l
			}
		}
		cc := c.Closures[closureOrd]
		if lit == nil || cc == nil {
			rep.Error = fmt.Sprintf("contract-detached:closure[%d] not found (literal or contract missing)", closureOrd)
			return
		}
		name = fmt.Sprintf("%s$closure%d", name, closureOrd)
		rep.Name, fc.name = name, name
		rep.SourceHash = reg.sourceHash(lit)
		lsig := pkg.TypesInfo.TypeOf(lit).(*types.Signature)
		if len(cc.Params) != lsig.Params().Len() || (len(cc.Results) != 0 && len(cc.Results) != lsig.Results().Len()) {
			rep.Error = "contract-detached:signature-changed (closure)"
			return
		}
		inner := &frame{fc: fc, pkg: pkg, info: pkg.TypesInfo, fn: fn, sig: lsig, contract: cc}
		inner.ords, inner.loopOrd, inner.litOrd, inner.callOrd = computeOrdinals(lit.Body, pkg.TypesInfo)
		if note := rebindLoops(fmt.Sprintf("%s:%s$closure%d", pkgRel, key, closureOrd), cc, inner.loopOrd); note != "" {
			reg.assumptions[name+": "+note] = true
		}
		if k := danglingInvariant(cc, inner.loopOrd); k > 0 {
			rep.Error = fmt.Sprintf("contract-detached:invariant[%d] of closure[%d] names a loop the literal no longer has (%d loops)", k, closureOrd, len(inner.loopOrd))
			return
		}
		var largs []*Value
		for i := 0; i < lsig.Params().Len(); i++ {
			v := freshInput(st, lsig.Params().At(i).Type(), "in:"+cc.Params[i])
			largs = append(largs, v)
			if cc.Params[i] != "_" {
				fc.paramVals[cc.Params[i]] = v
			}
		}
		inner.bindParams(st, nil, lit.Type, lsig, nil, largs)
		// captured locals of the enclosing function: arbitrary values at the time the literal runs
		ast.Inspect(lit.Body, func(n ast.Node) bool {
			id, ok := n.(*ast.Ident)
			if !ok {
				return true
			}
			v, ok := pkg.TypesInfo.Uses[id].(*types.Var)
			if !ok || v.IsField() || v.Pkg() == nil || v.Pkg().Scope().Lookup(v.Name()) == v {
				return true
			}
			if _, bound := st.vars[v]; bound {
				return true
			}
			if v.Pos() >= lit.Pos() && v.Pos() <= lit.End() {
				return true // declared inside the literal
			}
			if v.Pos() < decl.Pos() || v.Pos() > decl.End() {
				return true
			}
			cv := freshInput(st, v.Type(), "cap:"+v.Name())
			st.vars[v] = cv
			fc.capturedEntry[v.Name()] = cv
			return true
		})
		fc.root, fc.contract, fc.resNames = inner, cc, cc.Results
		fr, c, sig, body = inner, cc, lsig, lit.Body
	}
	lockKey := pkgRel + ":" + key
	if closureOrd > 0 {
		lockKey += fmt.Sprintf("$closure%d", closureOrd)
	}
	fc.rebind = bindLocals(lockKey, c, body, pkg.TypesInfo)
	for from, to := range fc.rebind {
		reg.assumptions[fmt.Sprintf("local %q named by the contract of %s was rebound to %q (same type and declaration ordinal, contracts.lock.json)", from, name, to.Name())] = true
	}
	// requires
	fc.entry = st // so that oldEnv works while evaluating requires
	env := &SpecEnv{reg: reg, pkg: pkg, st: st, vars: fc.paramVals}
	if closureOrd > 0 {
		env.fr = fr // captured locals of the enclosing function are visible by name
	}
	// `flag lemmas=a,b`: lemmas without uninterpreted functions (pure arithmetic) are not picked up by the
	// relevance filter; a function that needs one names it, and the proved lemma is assumed at entry. The lemma
	// must have been turned into obligations of this run (lemma_packages of the property).
	if ls := c.Flags["lemmas"]; ls != "" {
		for _, ln := range strings.Split(ls, ",") {
			t := reg.lemmaTerms[pkg.PkgPath+"."+strings.TrimSpace(ln)]
			if t == nil {
				specFail("flag lemmas: lemma %s of %s is not proved in this run (lemma_packages)", ln, pkg.PkgPath)
			}
			st.assume(t)
		}
	}
	for _, cl := range c.Clauses {
		if cl.Kind == "requires" {
			st.assume(env.evalBool(cl.Expr))
		}
		if cl.Kind == "assume" {
			// an axiom stated in the contract (never checked; listed among the assumptions)
			st.assume(env.evalBool(cl.Expr))
			reg.assumptions["axiom assumed in "+name+": "+nonEmpty(cl.Name, cl.Text)] = true
		}
	}
	// modifies clause, evaluated at entry
	for _, cl := range c.Clauses {
		if cl.Kind == "modifies" {
			for _, loc := range cl.Locs {
				fc.modLocs = append(fc.modLocs, env.evalModLoc(loc)...)
			}
		}
	}
	fc.entry = st.clone()
	fc.obls = append(fc.obls, &Obligation{Name: name + "/vacuity.pre", Hyps: append([]*Term(nil), st.pc...), Goal: TTrue, Kind: "vacuity", Func: name, Expect: "sat"})
	if c.Flags["recovers"] != "" {
		// `flag recovers`: the function promises its callers that a panic of what it calls does not escape. recover()
		// is not modelled; what can be checked is Go's structural condition for it to work at all: a `defer` at the top
		// level of the body, before any other statement that can fail, whose function literal calls recover()
		// DIRECTLY (one frame deeper, in a helper the literal calls, recover() returns nil and the panic goes on).
		goal := TFalse
		if recoversDirectly(body) {
			goal = TTrue
		}
		fc.obls = append(fc.obls, &Obligation{Name: name + "/recover.direct", Hyps: nil, Goal: goal, Kind: "safe", Func: name})
	}
	fc.ghostHookStmt(st, fr, "entry") // `ghost at entry: g := e` (after the old() snapshot)
	outs := fr.execBlock(st, body.List)
	for _, o := range outs {
		switch o.ctl {
		case cNormal:
			if sig.Results().Len() > 0 && len(fr.resVars) == 0 {
				// falls off the end of a function with results: unreachable in valid Go unless it ends in panic
				continue
			}
			fr.doReturn(o.st, nil, nil)
			fc.paths++
		case cReturn:
			fc.paths++
		}
	}
	rep.Paths = fc.paths
	rep.Obligations = len(fc.obls)
	return rep, fc.obls
}

func nonEmpty(a, b string) string {
	if a != "" {
		return a
	}
	return b
}

func displayKey(fn *types.Func) string {
	sig := fn.Type().(*types.Signature)
	if r := sig.Recv(); r != nil {
		if _, ok := r.Type().(*types.Pointer); ok {
			return "(*" + shortRecv(r.Type()) + ")." + fn.Name()
		}
		return "(" + shortRecv(r.Type()) + ")." + fn.Name()
	}
	return fn.Name()
}

// freshInput creates a symbolic input of type t with the facts that hold of any Go value.
func freshInput(st *State, t types.Type, name string) *Value {
	v := buildValue(t, "", func(path string, s *Sort) *Term { return mkVar(name+path, s) })
	st.assumeLoaded(v)
	return v
}

// danglingInvariant returns the ordinal of an invariant / decreases clause that names a loop the body does
// not have (0: none). A contract written for three loops does not silently apply to a body with two.
func danglingInvariant(c *FuncContract, loopOrd map[ast.Node]int) int {
	have := map[int]bool{}
	for _, o := range loopOrd {
		have[o] = true
	}
	for _, cl := range c.Clauses {
		if (cl.Kind == "invariant" || cl.Kind == "decreases" || cl.Kind == "hint") && !have[cl.Idx] {
			return cl.Idx
		}
	}
	return 0
}

// ---- axioms and lemmas ----

type axiomTerm struct {
	Name string
	T    *Term
	ufs  map[string]bool
}

func termUFs(t *Term, out map[string]bool) {
	seen := map[*Term]bool{}
	var walk func(t *Term)
	walk = func(t *Term) {
		if seen[t] {
			return
		}
		seen[t] = true
		if t.Kind == KUF {
			out[t.Op] = true
		}
		for _, a := range t.Args {
			walk(a)
		}
	}
	walk(t)
}

func (reg *Registry) axiomTerms() ([]axiomTerm, error) {
	var out []axiomTerm
	var err error
	paths := sortedKeys(reg.axioms)
	for _, p := range paths {
		for _, ax := range reg.axioms[p] {
			func() {
				defer func() {
					if r := recover(); r != nil {
						if se, ok := r.(specError); ok {
							err = fmt.Errorf("axiom %s: %s", ax.Name, se.msg)
							return
						}
						panic(r)
					}
				}()
				env := &SpecEnv{reg: reg, pkg: reg.pkgs[p], st: newState(), vars: map[string]*Value{}}
				t := env.evalBool(ax.Expr)
				a := axiomTerm{Name: ax.Name, T: t, ufs: map[string]bool{}}
				termUFs(t, a.ufs)
				out = append(out, a)
			}()
		}
	}
	return out, err
}

// lemmaObligations turns the lemmas of a package into obligations (each proved from the axioms
// and the lemmas stated before it).
func (reg *Registry) lemmaObligations(pkgRel string) (obls []*Obligation, proven []axiomTerm, err error) {
	p := modulePath + "/" + pkgRel
	for _, lm := range reg.lemmas[p] {
		func() {
			defer func() {
				if r := recover(); r != nil {
					if se, ok := r.(specError); ok {
						err = fmt.Errorf("lemma %s: %s", lm.Name, se.msg)
						return
					}
					panic(r)
				}
			}()
			env := &SpecEnv{reg: reg, pkg: reg.pkgs[p], st: newState(), vars: map[string]*Value{}}
			var hyps []*Term
			for _, pl := range proven {
				hyps = append(hyps, pl.T)
			}
			var t *Term
			if at := strings.Index(lm.Name, "@"); at >= 0 {
				// induction on the named integer binder: base (v = 0) and step (v > 0, IH at v-1);
				// the lemma is then available for v >= 0 only.
				v := lm.Name[at+1:]
				q := lm.Expr
				if q.Kind != SQuant || q.Op != "forall" {
					specFail("induction lemma %s must be a forall", lm.Name)
				}
				var others []SBinder
				var vb *SBinder
				for i := range q.Binders {
					if q.Binders[i].Name == v {
						vb = &q.Binders[i]
					} else {
						others = append(others, q.Binders[i])
					}
				}
				if vb == nil {
					specFail("induction lemma %s: no binder %s", lm.Name, v)
				}
				wrap := func(x *SExpr) *SExpr {
					if len(others) == 0 {
						return x
					}
					return &SExpr{Kind: SQuant, Op: "forall", Binders: others, X: x}
				}
				id := func(n string) *SExpr { return &SExpr{Kind: SIdent, Name: n} }
				lit := func(n string) *SExpr { return &SExpr{Kind: SIntLit, Name: n} }
				base := wrap(&SExpr{Kind: SLet, Name: v, X: lit("0"), Y: q.X})
				ih := wrap(&SExpr{Kind: SLet, Name: v, X: &SExpr{Kind: SBinary, Op: "-", X: id(v), Y: lit("1")}, Y: q.X})
				step := &SExpr{Kind: SQuant, Op: "forall", Binders: []SBinder{*vb}, X: &SExpr{Kind: SBinary, Op: "==>",
					X: &SExpr{Kind: SBinary, Op: ">", X: id(v), Y: lit("0")},
					Y: &SExpr{Kind: SBinary, Op: "==>", X: ih, Y: wrap(q.X)}}}
				obls = append(obls, &Obligation{Name: pkgRel + "/lemma:" + lm.Name + "/base", Hyps: hyps, Goal: env.evalBool(base), Kind: "lemma", Func: pkgRel})
				obls = append(obls, &Obligation{Name: pkgRel + "/lemma:" + lm.Name + "/step", Hyps: hyps, Goal: env.evalBool(step), Kind: "lemma", Func: pkgRel})
				guarded := &SExpr{Kind: SQuant, Op: "forall", Binders: q.Binders, X: &SExpr{Kind: SBinary, Op: "==>",
					X: &SExpr{Kind: SBinary, Op: ">=", X: id(v), Y: lit("0")}, Y: q.X}}
				t = env.evalBool(guarded)
			} else {
				t = env.evalBool(lm.Expr)
				obls = append(obls, &Obligation{Name: pkgRel + "/lemma:" + lm.Name, Hyps: hyps, Goal: t, Kind: "lemma", Func: pkgRel})
			}
			a := axiomTerm{Name: "lemma:" + lm.Name, T: t, ufs: map[string]bool{}}
			termUFs(t, a.ufs)
			proven = append(proven, a)
			if reg.lemmaTerms == nil {
				reg.lemmaTerms = map[string]*Term{}
			}
			reg.lemmaTerms[p+"."+strings.SplitN(lm.Name, "@", 2)[0]] = t
		}()
	}
	return
}

// relevantAxioms selects axioms sharing uninterpreted functions with the query (closure).
func relevantAxioms(all []axiomTerm, ts []*Term) []*Term {
	used := map[string]bool{}
	for _, t := range ts {
		termUFs(t, used)
	}
	var out []*Term
	taken := map[int]bool{}
	for changed := true; changed; {
		changed = false
		for i, a := range all {
			if taken[i] {
				continue
			}
			hit := false
			for u := range a.ufs {
				if used[u] {
					hit = true
					break
				}
			}
			if hit {
				taken[i] = true
				out = append(out, a.T)
				for u := range a.ufs {
					if !used[u] {
						used[u] = true
						changed = true
					}
				}
			}
		}
	}
	return out
}

// groupByName groups obligations generated on several paths under their name.
func groupByName(obls []*Obligation) (names []string, groups map[string][]*Obligation) {
	groups = map[string][]*Obligation{}
	for _, o := range obls {
		if _, ok := groups[o.Name]; !ok {
			names = append(names, o.Name)
		}
		groups[o.Name] = append(groups[o.Name], o)
	}
	sort.Strings(names)
	return
}

var _ = strings.TrimSpace
var _ ast.Node


// recoversDirectly: the body starts (possibly after other defers and simple declarations) with a
// `defer func() { ... recover() ... }()` whose literal calls the builtin recover itself.
func recoversDirectly(body *ast.BlockStmt) bool {
	for _, st := range body.List {
		d, ok := st.(*ast.DeferStmt)
		if !ok {
			switch x := st.(type) {
			case *ast.DeclStmt:
				continue
			case *ast.AssignStmt:
				// errPrefix := "filters": literals and plain names cannot fail
				plain := true
				for _, r := range x.Rhs {
					switch r.(type) {
					case *ast.BasicLit, *ast.Ident:
					default:
						plain = false
					}
				}
				if plain {
					continue
				}
			}
			return false
		}
		lit, ok := d.Call.Fun.(*ast.FuncLit)
		if !ok {
			continue
		}
		found := false
		ast.Inspect(lit.Body, func(n ast.Node) bool {
			switch x := n.(type) {
			case *ast.FuncLit:
				return false // a nested literal is another frame
			case *ast.CallExpr:
				if id, ok := x.Fun.(*ast.Ident); ok && id.Name == "recover" && len(x.Args) == 0 {
					found = true
				}
			}
			return true
		})
		if found {
			return true
		}
	}
	return false
}
