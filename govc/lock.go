package main

// Rename-robust binding of locals named in contracts.
//
// Contracts name locals of the function (loop invariants, ghost hooks). A harmless rename of such a local
// would detach the contract. /verif/contracts.lock.json records, per function under contract, the locals
// its contract mentions as (name, type, ordinal among the function's locals of that type in declaration
// order), written at authoring time (GOVC_WRITE_LOCK=1). When a name is gone from the current source, the
// local with the recorded type and ordinal is bound instead.

import (
	"bytes"
	"crypto/sha256"
	"encoding/json"
	"fmt"
	"go/printer"
	"go/token"
	"strconv"
	"go/ast"
	"go/types"
	"os"
	"path/filepath"
	"regexp"
	"sort"
)

type lockLocal struct {
	Name string `json:"name"`
	Type string `json:"type"`
	Ord  int    `json:"ord"`
}

var lockData = map[string][]lockLocal{}
var lockNew = map[string][]lockLocal{}

func loadLock(verif string) {
	b, err := os.ReadFile(filepath.Join(verif, "contracts.lock.json"))
	if err != nil {
		return
	}
	json.Unmarshal(b, &lockData)
}

func saveLock(verif string) {
	if os.Getenv("GOVC_WRITE_LOCK") == "" {
		return
	}
	for k, v := range lockNew {
		lockData[k] = v
	}
	keys := make([]string, 0, len(lockData))
	for k := range lockData {
		keys = append(keys, k)
	}
	sort.Strings(keys)
	out := map[string][]lockLocal{}
	for _, k := range keys {
		out[k] = lockData[k]
	}
	b, _ := json.MarshalIndent(out, "", " ")
	os.WriteFile(filepath.Join(verif, "contracts.lock.json"), b, 0o644)
}

// localsInOrder lists the local variables declared in body (not fields, not package level), by position.
func localsInOrder(body ast.Node, info *types.Info) []*types.Var {
	var vs []*types.Var
	ast.Inspect(body, func(n ast.Node) bool {
		id, ok := n.(*ast.Ident)
		if !ok {
			return true
		}
		if v, ok := info.Defs[id].(*types.Var); ok && !v.IsField() && v.Name() != "_" {
			vs = append(vs, v)
		}
		return true
	})
	sort.SliceStable(vs, func(i, j int) bool { return vs[i].Pos() < vs[j].Pos() })
	return vs
}

var identRE = regexp.MustCompile(`[A-Za-z_][A-Za-z_0-9]*`)

func contractWords(c *FuncContract) map[string]bool {
	w := map[string]bool{}
	for _, cl := range c.Clauses {
		for _, m := range identRE.FindAllString(cl.Text, -1) {
			w[m] = true
		}
		if cl.Expr != nil {
			for _, m := range identRE.FindAllString(cl.Expr.String(), -1) {
				w[m] = true
			}
		}
		if cl.Target != nil {
			for _, m := range identRE.FindAllString(cl.Target.String(), -1) {
				w[m] = true
			}
		}
	}
	return w
}

// bindLocals records the lock entry of a function (when writing) and computes the rebinding map
// old name -> current variable for names that the lock knows but the current source no longer has.
func bindLocals(lockKey string, c *FuncContract, body ast.Node, info *types.Info) map[string]*types.Var {
	cur := localsInOrder(body, info)
	byName := map[string]bool{}
	ordOf := map[*types.Var]int{}
	count := map[string]int{}
	for _, v := range cur {
		byName[v.Name()] = true
		t := typeName(v.Type())
		ordOf[v] = count[t]
		count[t]++
	}
	words := contractWords(c)
	var rec []lockLocal
	seen := map[string]bool{}
	for _, v := range cur {
		if words[v.Name()] && !seen[v.Name()] {
			seen[v.Name()] = true
			rec = append(rec, lockLocal{Name: v.Name(), Type: typeName(v.Type()), Ord: ordOf[v]})
		}
	}
	if os.Getenv("GOVC_WRITE_LOCK") != "" {
		lockNew[lockKey] = rec
	}
	rebind := map[string]*types.Var{}
	lockNames := map[string]bool{}
	for _, l := range lockData[lockKey] {
		lockNames[l.Name] = true
	}
	for _, l := range lockData[lockKey] {
		if byName[l.Name] || !words[l.Name] {
			continue
		}
		for _, v := range cur {
			if typeName(v.Type()) == l.Type && ordOf[v] == l.Ord {
				// do not steal a variable that the contract names itself (another lock entry still present)
				if !lockNames[v.Name()] {
					rebind[l.Name] = v
				}
				break
			}
		}
	}
	return rebind
}

// ---- loop ordinals that survive an added loop ----
//
// Invariants, hints, decreases clauses and `ghost at loop[k]` hooks are keyed by the ordinal of the loop in
// source order. A harmless edit that adds a loop in front of the others (a counting loop for a log line) would
// shift the ordinals and attach every invariant to the wrong loop. The lock file therefore also records, per
// function under contract, a signature of each loop (what it ranges over, or its condition). When the current
// source has a different number of loops than the lock, the recorded loops are matched to the current ones by
// signature, in order; if every recorded loop that the contract says something about finds its match, the
// matched loops keep their recorded ordinals and the new ones get ordinals no clause names (they are then
// treated as loops without invariant: everything they assign is havocked). Otherwise nothing is re-bound and
// the contract fails or detaches as before.

func loopSig(n ast.Node) string {
	switch x := n.(type) {
	case *ast.RangeStmt:
		return "range " + types.ExprString(x.X)
	case *ast.ForStmt:
		if x.Cond == nil {
			return "for"
		}
		return "for " + types.ExprString(x.Cond)
	}
	return "?"
}

// loopBodyHash: a digest of the printed loop statement (so that, among loops with the same signature, the one
// whose body is unchanged is recognised)
func loopBodyHash(n ast.Node) string {
	var buf bytes.Buffer
	printer.Fprint(&buf, token.NewFileSet(), n)
	return fmt.Sprintf("%x", sha256.Sum256(buf.Bytes()))[:10]
}

func rebindLoops(lockKey string, c *FuncContract, loopOrd map[ast.Node]int) (note string) {
	named := map[int]bool{} // ordinals the contract says something about
	for _, k := range c.Clauses {
		switch k.Kind {
		case "invariant", "decreases", "hint":
			named[k.Idx] = true
		case "ghost":
			var o int
			if n, _ := fmtSscanf(k.Where, &o); n == 1 {
				named[o] = true
			}
		}
	}
	return rebindOrdinals(lockKey+"#loops", "loop", loopOrd, loopSig, named)
}

// rebindLits: the same for function literals (closure[k] contracts): an added literal in front of the others
// (a deferred logging closure) must not shift the contracts onto the wrong literals.
func rebindLits(lockKey string, c *FuncContract, litOrd map[*ast.FuncLit]int) (note string) {
	named := map[int]bool{}
	for k := range c.Closures {
		named[k] = true
	}
	tmp := map[ast.Node]int{}
	for l, o := range litOrd {
		tmp[l] = o
	}
	note = rebindOrdinals(lockKey+"#lits", "literal", tmp, func(n ast.Node) string {
		return "func" + types.ExprString(n.(*ast.FuncLit).Type)
	}, named)
	if note != "" {
		for l := range litOrd {
			litOrd[l] = tmp[l]
		}
	}
	return note
}

func rebindOrdinals(key, what string, ordOf map[ast.Node]int, sigOf func(ast.Node) string, named map[int]bool) (note string) {
	type cl struct {
		n    ast.Node
		ord  int
		sig  string
		hash string
	}
	var cur []cl
	for n, o := range ordOf {
		cur = append(cur, cl{n, o, sigOf(n), loopBodyHash(n)})
	}
	sort.Slice(cur, func(i, j int) bool { return cur[i].ord < cur[j].ord })
	if os.Getenv("GOVC_WRITE_LOCK") != "" {
		var rec []lockLocal
		for _, l := range cur {
			rec = append(rec, lockLocal{Name: l.sig, Type: what + ":" + l.hash, Ord: l.ord})
		}
		if len(rec) > 0 {
			lockNew[key] = rec
		}
	}
	old := lockData[key]
	if len(old) == 0 || len(old) == len(cur) {
		return ""
	}
	// order-preserving matching of the recorded items to the current ones with the highest score:
	// 3 for the same signature and the same body, 1 for the same signature only
	n, m := len(old), len(cur)
	score := func(i, j int) int {
		if old[i].Name != cur[j].sig {
			return 0
		}
		if old[i].Type == what+":"+cur[j].hash {
			return 3
		}
		return 1
	}
	best := make([][]int, n+1)
	for i := range best {
		best[i] = make([]int, m+1)
	}
	for i := n - 1; i >= 0; i-- {
		for j := m - 1; j >= 0; j-- {
			b := best[i+1][j]
			if best[i][j+1] > b {
				b = best[i][j+1]
			}
			if sc := score(i, j); sc > 0 && best[i+1][j+1]+sc > b {
				b = best[i+1][j+1] + sc
			}
			best[i][j] = b
		}
	}
	assign := map[ast.Node]int{}
	matched := map[int]bool{}
	for i, j := 0, 0; i < n && j < m; {
		sc := score(i, j)
		switch {
		case sc > 0 && best[i][j] == best[i+1][j+1]+sc:
			assign[cur[j].n] = old[i].Ord
			matched[i] = true
			i++
			j++
		case best[i][j] == best[i+1][j]:
			i++
		default:
			j++
		}
	}
	for i, o := range old {
		if !matched[i] && named[o.Ord] {
			return "" // an item the contract talks about is gone: leave everything as it is
		}
	}
	extra := 0
	for _, l := range cur {
		if _, ok := assign[l.n]; !ok {
			extra++
			assign[l.n] = 1000 + extra
		}
	}
	for n, o := range assign {
		ordOf[n] = o
	}
	return what + " ordinals re-bound by signature (the function has " + itoa(len(cur)) + " " + what + "s, its contract was written for " + itoa(len(old)) + "; contracts.lock.json)"
}

func fmtSscanf(where string, o *int) (int, error) {
	return fmt.Sscanf(where, "loop[%d]", o)
}

func itoa(n int) string { return strconv.Itoa(n) }
