package main

// Rename-robust binding of locals named in contracts.
//
// Contracts name locals of the function (loop invariants, ghost hooks). A harmless rename of such a local
// would detach the contract. /verif/contracts.lock.json records, per function under contract, the locals
// its contract mentions as (name, type, ordinal among the function's locals of that type in declaration
// order), written at authoring time (GOVC_WRITE_LOCK=1). When a name is gone from the current source, the
// local with the recorded type and ordinal is bound instead.

import (
	"encoding/json"
	"go/ast"
	"go/types"
	"os"
	"path/filepath"
	"regexp"
	"sort"
)

type lockLocal struct {
	Name string `json:"name"`
	Type string `json:"type"`
	Ord  int    `json:"ord"`
}

var lockData = map[string][]lockLocal{}
var lockNew = map[string][]lockLocal{}

func loadLock(verif string) {
	b, err := os.ReadFile(filepath.Join(verif, "contracts.lock.json"))
	if err != nil {
		return
	}
	json.Unmarshal(b, &lockData)
}

func saveLock(verif string) {
	if os.Getenv("GOVC_WRITE_LOCK") == "" {
		return
	}
	for k, v := range lockNew {
		lockData[k] = v
	}
	keys := make([]string, 0, len(lockData))
	for k := range lockData {
		keys = append(keys, k)
	}
	sort.Strings(keys)
	out := map[string][]lockLocal{}
	for _, k := range keys {
		out[k] = lockData[k]
	}
	b, _ := json.MarshalIndent(out, "", " ")
	os.WriteFile(filepath.Join(verif, "contracts.lock.json"), b, 0o644)
}

// localsInOrder lists the local variables declared in body (not fields, not package level), by position.
func localsInOrder(body ast.Node, info *types.Info) []*types.Var {
	var vs []*types.Var
	ast.Inspect(body, func(n ast.Node) bool {
		id, ok := n.(*ast.Ident)
		if !ok {
			return true
		}
		if v, ok := info.Defs[id].(*types.Var); ok && !v.IsField() && v.Name() != "_" {
			vs = append(vs, v)
		}
		return true
	})
	sort.SliceStable(vs, func(i, j int) bool { return vs[i].Pos() < vs[j].Pos() })
	return vs
}

var identRE = regexp.MustCompile(`[A-Za-z_][A-Za-z_0-9]*`)

func contractWords(c *FuncContract) map[string]bool {
	w := map[string]bool{}
	for _, cl := range c.Clauses {
		for _, m := range identRE.FindAllString(cl.Text, -1) {
			w[m] = true
		}
		if cl.Expr != nil {
			for _, m := range identRE.FindAllString(cl.Expr.String(), -1) {
				w[m] = true
			}
		}
		if cl.Target != nil {
			for _, m := range identRE.FindAllString(cl.Target.String(), -1) {
				w[m] = true
			}
		}
	}
	return w
}

// bindLocals records the lock entry of a function (when writing) and computes the rebinding map
// old name -> current variable for names that the lock knows but the current source no longer has.
func bindLocals(lockKey string, c *FuncContract, body ast.Node, info *types.Info) map[string]*types.Var {
	cur := localsInOrder(body, info)
	byName := map[string]bool{}
	ordOf := map[*types.Var]int{}
	count := map[string]int{}
	for _, v := range cur {
		byName[v.Name()] = true
		t := typeName(v.Type())
		ordOf[v] = count[t]
		count[t]++
	}
	words := contractWords(c)
	var rec []lockLocal
	seen := map[string]bool{}
	for _, v := range cur {
		if words[v.Name()] && !seen[v.Name()] {
			seen[v.Name()] = true
			rec = append(rec, lockLocal{Name: v.Name(), Type: typeName(v.Type()), Ord: ordOf[v]})
		}
	}
	if os.Getenv("GOVC_WRITE_LOCK") != "" {
		lockNew[lockKey] = rec
	}
	rebind := map[string]*types.Var{}
	lockNames := map[string]bool{}
	for _, l := range lockData[lockKey] {
		lockNames[l.Name] = true
	}
	for _, l := range lockData[lockKey] {
		if byName[l.Name] || !words[l.Name] {
			continue
		}
		for _, v := range cur {
			if typeName(v.Type()) == l.Type && ordOf[v] == l.Ord {
				// do not steal a variable that the contract names itself (another lock entry still present)
				if !lockNames[v.Name()] {
					rebind[l.Name] = v
				}
				break
			}
		}
	}
	return rebind
}
