package main

// SMT-LIB emission and the solver portfolio.

import (
	"bytes"
	"context"
	"fmt"
	"os"
	"os/exec"
	"path/filepath"
	"regexp"
	"strings"
	"sync"
	"time"
)

type SolveResult struct {
	Name    string  `json:"name"`
	Kind    string  `json:"kind"`
	Status  string  `json:"status"` // discharged, failed, unknown, vacuous, ok-sat
	Solver  string  `json:"solver,omitempty"`
	TimeS   float64 `json:"time_s"`
	Queries int     `json:"queries"`
	File    string  `json:"file,omitempty"`
	Model   string  `json:"-"`
	Detail  string  `json:"detail,omitempty"`
	Size    int     `json:"smt_bytes,omitempty"`
	obl     *Obligation
	Hyps    []*Term `json:"-"`
}

// hasOpenQuo reports whether some go.quo / go.rem application mentions a bound variable.
func hasOpenQuo(ts []*Term) bool {
	seen := map[*Term]bool{}
	var walk func(t *Term) bool
	walk = func(t *Term) bool {
		if seen[t] {
			return false
		}
		seen[t] = true
		if t.Kind == KUF && (t.Op == "go.quo" || t.Op == "go.rem") && len(t.open) > 0 {
			return true
		}
		for _, a := range t.Args {
			if walk(a) {
				return true
			}
		}
		return false
	}
	for _, t := range ts {
		if walk(t) {
			return true
		}
	}
	return false
}

// buildQuery prints the SMT-LIB text of hyps ∧ ¬goal (or just hyps when expectSat).
func buildQuery(hyps []*Term, goal *Term, expectSat bool, axioms []axiomTerm, wantModel bool) string {
	all := append([]*Term(nil), hyps...)
	if !expectSat {
		all = append(all, Not(goal))
	}
	ax := relevantAxioms(axioms, all)
	all = append(ax, all...)
	if hasOpenQuo(all) {
		// quotients by a non-constant divisor under a binder carry no facts of their own (see divFacts): give the
		// solver the definition of Go's truncated division for positive divisors, triggered on the quotient term
		a, bb := mkBVar("quo!a", SInt), mkBVar("quo!b", SInt)
		q, r, z := mkUF("go.quo", SInt, a, bb), mkUF("go.rem", SInt, a, bb), mkInt(0)
		body := Implies(Gt(bb, z), And(Eq(a, Add(Mul(bb, q), r)),
			Implies(Ge(a, z), And(Le(z, r), Lt(r, bb), Ge(q, z), Le(q, a))),
			Implies(Lt(a, z), And(Lt(Neg(bb), r), Le(r, z), Le(q, z)))))
		all = append([]*Term{quant("forall", []*Term{a, bb}, body, [][]*Term{{q}})}, all...)
	}
	vars, ufs, sorts := collectDecls(all)
	var b strings.Builder
	b.WriteString("(set-option :produce-models true)\n(set-logic ALL)\n")
	for _, s := range sortedKeys(sorts) {
		if s == "Real" {
			continue
		}
		fmt.Fprintf(&b, "(declare-sort %s 0)\n", smtSym(s))
	}
	for _, u := range sortedKeys(ufs) {
		sig := ufs[u]
		var as []string
		for _, a := range sig.Args {
			as = append(as, a.String())
		}
		fmt.Fprintf(&b, "(declare-fun %s (%s) %s)\n", smtSym(u), strings.Join(as, " "), sig.Res.String())
	}
	for _, v := range sortedKeys(vars) {
		fmt.Fprintf(&b, "(declare-fun %s () %s)\n", smtSym(v), vars[v].String())
	}
	// shared closed subterms become named definitions to keep the text linear in the DAG size
	pr := newDagPrinter(all)
	pr.emitDefs(&b)
	for _, t := range all {
		b.WriteString("(assert ")
		pr.write(&b, t)
		b.WriteString(")\n")
	}
	b.WriteString("(check-sat)\n")
	if wantModel {
		b.WriteString("(get-model)\n")
	}
	return b.String()
}

type dagPrinter struct {
	refs  map[*Term]int
	named map[*Term]string
	order []*Term
}

func newDagPrinter(roots []*Term) *dagPrinter {
	p := &dagPrinter{refs: map[*Term]int{}, named: map[*Term]string{}}
	var count func(t *Term)
	count = func(t *Term) {
		p.refs[t]++
		if p.refs[t] > 1 {
			return
		}
		for _, a := range t.Args {
			count(a)
		}
		for _, pt := range t.Pats {
			for _, x := range pt {
				count(x)
			}
		}
	}
	for _, r := range roots {
		count(r)
	}
	// post-order naming of shared, closed, non-trivial terms
	seen := map[*Term]bool{}
	var visit func(t *Term)
	visit = func(t *Term) {
		if seen[t] {
			return
		}
		seen[t] = true
		for _, a := range t.Args {
			visit(a)
		}
		if p.refs[t] > 1 && len(t.open) == 0 && len(t.Args) > 0 && t.Kind != KQuant {
			p.named[t] = fmt.Sprintf("$t%d", len(p.order)+1)
			p.order = append(p.order, t)
		}
	}
	for _, r := range roots {
		visit(r)
	}
	return p
}

func (p *dagPrinter) emitDefs(b *strings.Builder) {
	for _, t := range p.order {
		name := p.named[t]
		delete(p.named, t)
		fmt.Fprintf(b, "(define-fun %s () %s ", name, t.Sort.String())
		p.write(b, t)
		b.WriteString(")\n")
		p.named[t] = name
	}
}

func (p *dagPrinter) write(b *strings.Builder, t *Term) {
	if n, ok := p.named[t]; ok {
		b.WriteString(n)
		return
	}
	switch t.Kind {
	case KInt, KBool, KStr, KVar, KBVar:
		t.write(b)
	case KQuant:
		b.WriteString("(" + t.Op + " (")
		for i, v := range t.Bound {
			if i > 0 {
				b.WriteByte(' ')
			}
			b.WriteString("(" + smtSym(v.Op) + " " + v.Sort.String() + ")")
		}
		b.WriteString(") ")
		if len(t.Pats) > 0 {
			b.WriteString("(! ")
		}
		p.write(b, t.Args[0])
		if len(t.Pats) > 0 {
			for _, pt := range t.Pats {
				b.WriteString(" :pattern (")
				for i, x := range pt {
					if i > 0 {
						b.WriteByte(' ')
					}
					p.write(b, x)
				}
				b.WriteString(")")
			}
			b.WriteString(")")
		}
		b.WriteString(")")
	default:
		if t.Op == "const-array" {
			b.WriteString("((as const " + t.Sort.String() + ") ")
			p.write(b, t.Args[0])
			b.WriteString(")")
			return
		}
		if len(t.Args) == 0 {
			if t.Kind == KUF {
				b.WriteString(smtSym(t.Op))
			} else {
				b.WriteString(t.Op)
			}
			return
		}
		b.WriteByte('(')
		if t.Kind == KUF {
			b.WriteString(smtSym(t.Op))
		} else {
			b.WriteString(t.Op)
		}
		for _, a := range t.Args {
			b.WriteByte(' ')
			p.write(b, a)
		}
		b.WriteByte(')')
	}
}

type solverDef struct {
	name string
	args func(file string, timeoutMs int) []string
}

var solvers = []solverDef{
	{"z3-new", func(f string, ms int) []string { return []string{"z3-new", fmt.Sprintf("-t:%d", ms), f} }},
	{"cvc5", func(f string, ms int) []string {
		return []string{"cvc5", "--strings-exp", fmt.Sprintf("--tlimit=%d", ms), f}
	}},
	{"z3", func(f string, ms int) []string { return []string{"z3", fmt.Sprintf("-t:%d", ms), f} }},
}

var firstLineRE = regexp.MustCompile(`(?m)^(sat|unsat|unknown|timeout)\s*$`)

func runSolver(ctx context.Context, sd solverDef, file string, timeoutMs int) (status, out string, dur time.Duration) {
	args := sd.args(file, timeoutMs)
	cctx, cancel := context.WithTimeout(ctx, time.Duration(timeoutMs+2000)*time.Millisecond)
	defer cancel()
	cmd := exec.CommandContext(cctx, args[0], args[1:]...)
	var buf bytes.Buffer
	cmd.Stdout = &buf
	cmd.Stderr = &buf
	t0 := time.Now()
	_ = cmd.Run()
	dur = time.Since(t0)
	out = buf.String()
	m := firstLineRE.FindString(out)
	switch strings.TrimSpace(m) {
	case "sat", "unsat":
		return strings.TrimSpace(m), out, dur
	}
	if cctx.Err() != nil {
		return "timeout", out, dur
	}
	if strings.Contains(out, "error") && !strings.Contains(out, "unknown") {
		return "error", out, dur
	}
	return "unknown", out, dur
}

// portfolio: z3-new alone with a short budget first, then all solvers in parallel.
func solveFile(file string, quickMs, fullMs int, agree bool) (status, solver, out string, dur time.Duration, all map[string]string) {
	all = map[string]string{}
	t0 := time.Now()
	if !agree {
		st, o, _ := runSolver(context.Background(), solvers[0], file, quickMs)
		all[solvers[0].name] = st
		if st == "sat" || st == "unsat" {
			return st, solvers[0].name, o, time.Since(t0), all
		}
	}
	type res struct {
		st, name, out string
	}
	ctx, cancel := context.WithCancel(context.Background())
	defer cancel()
	ch := make(chan res, len(solvers))
	for _, sd := range solvers {
		sd := sd
		go func() {
			st, o, _ := runSolver(ctx, sd, file, fullMs)
			ch <- res{st, sd.name, o}
		}()
	}
	var first *res
	var lastOut string
	for i := 0; i < len(solvers); i++ {
		r := <-ch
		all[r.name] = r.st
		if r.st == "error" {
			lastOut += r.name + ": " + r.out + "\n"
		}
		if (r.st == "sat" || r.st == "unsat") && first == nil {
			rr := r
			first = &rr
			if !agree {
				cancel()
				break
			}
		}
	}
	if first != nil {
		if agree {
			for n, s := range all {
				if (s == "sat" || s == "unsat") && s != first.st {
					return "disagree", n, fmt.Sprintf("%v", all), time.Since(t0), all
				}
			}
		}
		return first.st, first.name, first.out, time.Since(t0), all
	}
	return "unknown", "", lastOut, time.Since(t0), all
}

type solveConfig struct {
	outDir   string
	quickMs  int
	fullMs   int
	agree    bool
	parallel int
	axioms   []axiomTerm
}

// dischargeAll solves all obligations (grouped by name) in parallel.
func dischargeAll(obls []*Obligation, cfg solveConfig) []*SolveResult {
	names, groups := groupByName(obls)
	results := make([]*SolveResult, len(names))
	os.MkdirAll(cfg.outDir, 0o755)
	sem := make(chan struct{}, cfg.parallel)
	var wg sync.WaitGroup
	// term construction is not thread-safe beyond interning; build query texts sequentially
	type job struct {
		idx   int
		files []string
		obl   []*Obligation
	}
	var jobs []job
	for i, n := range names {
		j := job{idx: i}
		for k, o := range groups[n] {
			q := buildQuery(o.Hyps, o.Goal, o.Expect == "sat", cfg.axioms, true)
			fn := filepath.Join(cfg.outDir, sanitizeFile(n)+fmt.Sprintf(".%d.smt2", k+1))
			os.WriteFile(fn, []byte("; obligation: "+n+"\n; statement at: "+o.Note+"\n"+q), 0o644)
			j.files = append(j.files, fn)
			j.obl = append(j.obl, o)
		}
		jobs = append(jobs, j)
		results[i] = &SolveResult{Name: n, Kind: groups[n][0].Kind, Queries: len(groups[n])}
	}
	for _, j := range jobs {
		j := j
		wg.Add(1)
		sem <- struct{}{}
		go func() {
			defer wg.Done()
			defer func() { <-sem }()
			r := results[j.idx]
			r.Status = "discharged"
			t0 := time.Now()
			coverUnsat, coverOther := 0, 0
			for k, f := range j.files {
				o := j.obl[k]
				fi, _ := os.Stat(f)
				if fi != nil && int(fi.Size()) > r.Size {
					r.Size = int(fi.Size())
				}
				var st, solver, out string
				var all map[string]string
				if o.Expect == "sat" {
					// vacuity / cover check: a quick look for a contradiction; "unknown" is acceptable
					st, out, _ = runSolver(context.Background(), solvers[0], f, 1500)
					solver = solvers[0].name
				} else {
					st, solver, out, _, all = solveFile(f, cfg.quickMs, cfg.fullMs, cfg.agree)
				}
				r.Solver = solver
				if o.Expect == "sat" {
					switch st {
					case "unsat":
						coverUnsat++
						r.File = f
					case "sat":
						coverOther++
					default:
						coverOther++
						r.Detail = "satisfiability not confirmed (" + st + ")"
					}
					// the site is vacuous only if it is unreachable on every path that gets there
					if coverOther > 0 {
						r.Status = "ok-sat"
					} else if coverUnsat > 0 {
						r.Status, r.Detail = "vacuous", "the hypotheses at this point are unsatisfiable on every path (contradictory precondition, invariant or assumed callee contract)"
					}
					continue
				}
				switch st {
				case "unsat":
				case "sat":
					r.Status, r.File, r.Model, r.obl, r.Hyps = "failed", f, out, o, o.Hyps
					r.Detail = fmt.Sprintf("%s answered sat (path %d of %d)", solver, k+1, len(j.files))
				case "disagree":
					r.Status, r.File, r.Detail = "failed", f, "solvers disagree: "+out
				default:
					if r.Status == "discharged" {
						r.Status, r.File, r.obl, r.Hyps = "unknown", f, o, o.Hyps
						r.Detail = fmt.Sprintf("no solver decided (path %d of %d): %v %s", k+1, len(j.files), all, firstLine(out))
					}
				}
				if r.Status == "failed" {
					break
				}
			}
			r.TimeS = time.Since(t0).Seconds()
		}()
	}
	wg.Wait()
	return results
}

func firstLine(s string) string {
	s = strings.TrimSpace(s)
	if i := strings.Index(s, "\n"); i >= 0 {
		s = s[:i]
	}
	if len(s) > 200 {
		s = s[:200]
	}
	return s
}

func sanitizeFile(n string) string {
	r := strings.NewReplacer("/", "_", "(", "", ")", "", "*", "", " ", "_", "[", "_", "]", "", "#", "-", "@", "-at-", ":", "-", "<", "", ">", "", ",", "_")
	s := r.Replace(n)
	if len(s) > 150 {
		s = s[:150]
	}
	return s
}
