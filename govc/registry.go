package main

// Loading of /repo packages and of contract files; registry of contracts, predicates, ghost state.

import (
	"crypto/sha256"
	"fmt"
	"go/ast"
	"go/constant"
	"go/token"
	"go/types"
	"os"
	"path/filepath"
	"sort"
	"strings"

	"golang.org/x/tools/go/packages"
)

const contractFileName = "zz_contracts_verif.go"
const modulePath = "github.com/megaease/easegress"

type Registry struct {
	lemmaTerms map[string]*Term // proved lemmas of this run, by "pkgpath.name" (flag lemmas=…)
	repo      string
	verifDir  string
	fset      *token.FileSet
	pkgs      map[string]*packages.Package // by import path (all transitively loaded)
	roots     []*packages.Package
	contracts map[string]*FuncContract // "pkgpath.Recv.Name" / "pkgpath.Name"
	cfiles    map[string]*ContractFile // by package path
	preds     map[string]*PredDecl     // "pkgpath.name"
	gfields   map[string]GhostField    // "pkgpath.Type.name"
	gvars     map[string]GhostVar      // "pkgpath.name"
	invs      map[string][]TypeInv     // "pkgpath.Type"
	guards    map[string]Guarded       // "pkgpath.Type"
	axioms    map[string][]NamedFormula // pkgpath
	lemmas    map[string][]NamedFormula
	funcDecls map[string]*ast.FuncDecl // types.Func FullName -> decl
	declPkg   map[string]*packages.Package
	contractSource map[string]string // pkgpath -> "repo" | "mirror"
	contractHash   map[string]string
	noEffect  []string // callee name prefixes dropped from extraction
	dropped   map[string]int
	inlined   map[string]bool
	trustedUsed map[string]bool
	assumptions map[string]bool
}

func loadRegistry(repo, verifDir string, pkgPaths []string) (*Registry, error) {
	r := &Registry{repo: repo, verifDir: verifDir, pkgs: map[string]*packages.Package{},
		contracts: map[string]*FuncContract{}, cfiles: map[string]*ContractFile{}, preds: map[string]*PredDecl{},
		gfields: map[string]GhostField{}, gvars: map[string]GhostVar{}, invs: map[string][]TypeInv{}, guards: map[string]Guarded{},
		axioms: map[string][]NamedFormula{}, lemmas: map[string][]NamedFormula{},
		funcDecls: map[string]*ast.FuncDecl{}, declPkg: map[string]*packages.Package{},
		contractSource: map[string]string{}, contractHash: map[string]string{},
		dropped: map[string]int{}, inlined: map[string]bool{}, trustedUsed: map[string]bool{}, assumptions: map[string]bool{}}
	r.fset = token.NewFileSet()
	cfg := &packages.Config{
		Mode: packages.NeedName | packages.NeedFiles | packages.NeedSyntax | packages.NeedTypes | packages.NeedTypesInfo |
			packages.NeedImports | packages.NeedDeps | packages.NeedTypesSizes,
		Dir:  repo,
		Fset: r.fset,
		Env:  append(os.Environ(), "GOFLAGS=-mod=mod", "GOPROXY=off", "GOSUMDB=off", "GOTOOLCHAIN=local", "CGO_ENABLED=0"),
	}
	var pats []string
	for _, p := range pkgPaths {
		pats = append(pats, modulePath+"/"+p)
	}
	pkgs, err := packages.Load(cfg, pats...)
	if err != nil {
		return nil, err
	}
	r.roots = pkgs
	var visit func(p *packages.Package)
	visit = func(p *packages.Package) {
		if _, ok := r.pkgs[p.PkgPath]; ok {
			return
		}
		r.pkgs[p.PkgPath] = p
		for _, ip := range p.Imports {
			visit(ip)
		}
	}
	for _, p := range pkgs {
		if p.Types == nil || p.TypesInfo == nil {
			return nil, fmt.Errorf("package %s: no type information (%v)", p.PkgPath, p.Errors)
		}
		// errors in the package's own files (not in dependencies) are fatal
		for _, e := range p.Errors {
			if strings.Contains(e.Pos, repo+"/"+strings.TrimPrefix(p.PkgPath, modulePath+"/")+"/") {
				return nil, fmt.Errorf("package %s does not type-check: %v", p.PkgPath, e)
			}
		}
		visit(p)
	}
	// function declarations of module packages
	for path, p := range r.pkgs {
		if !strings.HasPrefix(path, modulePath) {
			continue
		}
		if p.TypesInfo == nil {
			continue
		}
		for _, f := range p.Syntax {
			for _, d := range f.Decls {
				fd, ok := d.(*ast.FuncDecl)
				if !ok {
					continue
				}
				if obj, ok := p.TypesInfo.Defs[fd.Name].(*types.Func); ok {
					r.funcDecls[obj.FullName()] = fd
					r.declPkg[obj.FullName()] = p
				}
			}
		}
	}
	r.computeFinalGlobals()
	// element sorts of all heap classes of module struct types (so that `allof("T.f")` and loop
	// havoc know the sort of a class before any code path has touched it)
	for path, p := range r.pkgs {
		if !strings.HasPrefix(path, modulePath) || p.Types == nil {
			continue
		}
		sc := p.Types.Scope()
		for _, n := range sc.Names() {
			tn, ok := sc.Lookup(n).(*types.TypeName)
			if !ok || tn.IsAlias() {
				continue
			}
			st, ok := tn.Type().Underlying().(*types.Struct)
			if !ok {
				continue
			}
			func() {
				defer func() { recover() }() // struct types with fields outside the subset are skipped
				for i := 0; i < st.NumFields(); i++ {
					f := st.Field(i)
					for _, l := range leavesOf(f.Type()) {
						noteClass(structClass(tn.Type())+"."+f.Name()+l.Path, l.Sort, false)
					}
				}
			}()
		}
	}
	// contract files: /repo/<pkg>/zz_contracts_verif.go, else mirror; plus /verif/models/*.spec for externals
	for path := range r.pkgs {
		if !strings.HasPrefix(path, modulePath+"/") {
			continue
		}
		rel := strings.TrimPrefix(path, modulePath+"/")
		src, from := "", ""
		mirror := filepath.Join(verifDir, "contracts", rel, contractFileName)
		inRepo := filepath.Join(repo, rel, contractFileName)
		if os.Getenv("GOVC_CONTRACTS") != "mirror" {
			if b, err := os.ReadFile(inRepo); err == nil {
				src, from = string(b), "repo"
			}
		}
		if src == "" {
			if b, err := os.ReadFile(mirror); err == nil {
				src, from = string(b), "mirror"
			}
		}
		if src == "" {
			continue
		}
		cf, err := ParseContractFile(filepath.Join(rel, contractFileName), src)
		if err != nil {
			return nil, fmt.Errorf("contract-detached:parse: %v", err)
		}
		r.contractSource[path] = from
		r.contractHash[path] = fmt.Sprintf("%x", sha256.Sum256([]byte(src)))[:12]
		r.addContractFile(path, cf)
	}
	specs, _ := filepath.Glob(filepath.Join(verifDir, "models", "*.spec"))
	sort.Strings(specs)
	for _, sp := range specs {
		b, err := os.ReadFile(sp)
		if err != nil {
			return nil, err
		}
		cf, err := ParseContractFile(filepath.Base(sp), "/*@\n"+string(b)+"\n@*/")
		if err != nil {
			return nil, fmt.Errorf("model file: %v", err)
		}
		r.addContractFile("", cf)
	}
	if b, err := os.ReadFile(filepath.Join(verifDir, "models", "noeffect.list")); err == nil {
		for _, ln := range strings.Split(string(b), "\n") {
			ln = strings.TrimSpace(ln)
			if ln != "" && !strings.HasPrefix(ln, "#") {
				r.noEffect = append(r.noEffect, ln)
			}
		}
	}
	return r, nil
}

func (r *Registry) addContractFile(pkgPath string, cf *ContractFile) {
	r.cfiles[pkgPath] = cf
	for _, fc := range cf.Funcs {
		key := pkgPath + "." + fc.Key
		if fc.External != "" {
			key = fc.Key
		}
		r.contracts[key] = fc
	}
	for _, p := range cf.Preds {
		r.preds[pkgPath+"."+p.Name] = p
	}
	for _, g := range cf.GFields {
		if pkgPath == "" {
			// model files: `ghost field pkg.Type.name` (Type holds "pkg", Name holds "Type.name")
			r.gfields[g.Type+"."+g.Name] = g
			continue
		}
		r.gfields[pkgPath+"."+g.Type+"."+g.Name] = g
	}
	for _, g := range cf.GVars {
		r.gvars[pkgPath+"."+g.Name] = g
	}
	for _, inv := range cf.Invs {
		r.invs[pkgPath+"."+inv.Type] = append(r.invs[pkgPath+"."+inv.Type], inv)
	}
	for _, g := range cf.Guards {
		r.guards[pkgPath+"."+g.Type] = g
	}
	r.axioms[pkgPath] = append(r.axioms[pkgPath], cf.Axioms...)
	r.lemmas[pkgPath] = append(r.lemmas[pkgPath], cf.Lemmas...)
}

// funcKey returns the registry key of a function object.
func funcKey(fn *types.Func) string {
	sig := fn.Type().(*types.Signature)
	pkg := ""
	if fn.Pkg() != nil {
		pkg = fn.Pkg().Path()
	}
	if recv := sig.Recv(); recv != nil {
		t := recv.Type()
		if p, ok := t.(*types.Pointer); ok {
			t = p.Elem()
		}
		switch n := t.(type) {
		case *types.Named:
			if n.Obj().Pkg() == nil {
				return "." + n.Obj().Name() + "." + fn.Name() // universe type (error)
			}
			return n.Obj().Pkg().Path() + "." + n.Obj().Name() + "." + fn.Name()
		case *types.Alias:
			return pkg + "." + n.Obj().Name() + "." + fn.Name()
		default:
			// interface literal method
			return pkg + ".?." + fn.Name()
		}
	}
	return pkg + "." + fn.Name()
}

func (r *Registry) contractFor(fn *types.Func) *FuncContract {
	if fn == nil {
		return nil
	}
	return r.contracts[funcKey(fn.Origin())]
}

// findFunc locates a function declaration by package-relative key "Recv.Name" or "Name".
func (r *Registry) findFunc(pkgPath, key string) (*types.Func, *ast.FuncDecl, *packages.Package) {
	p := r.pkgs[pkgPath]
	if p == nil {
		return nil, nil, nil
	}
	for _, f := range p.Syntax {
		for _, d := range f.Decls {
			fd, ok := d.(*ast.FuncDecl)
			if !ok {
				continue
			}
			obj, ok := p.TypesInfo.Defs[fd.Name].(*types.Func)
			if !ok {
				continue
			}
			if strings.TrimPrefix(funcKey(obj), pkgPath+".") == key {
				return obj, fd, p
			}
		}
	}
	// "Var.Field": the function literal a package-level variable's composite literal gives to that field
	// (var RetryKind = &Kind{DefaultPolicy: func() Policy {...}}), verified as a function of its own
	if i := strings.Index(key, "."); i > 0 {
		vname, fname := key[:i], key[i+1:]
		for _, f := range p.Syntax {
			for _, d := range f.Decls {
				gd, ok := d.(*ast.GenDecl)
				if !ok || gd.Tok != token.VAR {
					continue
				}
				for _, sp := range gd.Specs {
					vs := sp.(*ast.ValueSpec)
					for k, n := range vs.Names {
						if n.Name != vname || k >= len(vs.Values) {
							continue
						}
						e := ast.Expr(vs.Values[k])
						if u, ok := e.(*ast.UnaryExpr); ok && u.Op == token.AND {
							e = u.X
						}
						cl, ok := e.(*ast.CompositeLit)
						if !ok {
							continue
						}
						for _, el := range cl.Elts {
							kv, ok := el.(*ast.KeyValueExpr)
							if !ok {
								continue
							}
							kid, ok := kv.Key.(*ast.Ident)
							lit, ok2 := kv.Value.(*ast.FuncLit)
							if !ok || !ok2 || kid.Name != fname {
								continue
							}
							sig, ok := p.TypesInfo.TypeOf(lit).(*types.Signature)
							if !ok {
								continue
							}
							obj := types.NewFunc(lit.Pos(), p.Types, key, sig)
							fd := &ast.FuncDecl{Name: &ast.Ident{NamePos: lit.Pos(), Name: key}, Type: lit.Type, Body: lit.Body}
							return obj, fd, p
						}
					}
				}
			}
		}
	}
	return nil, nil, nil
}

// isNoEffect reports whether calls to the named function are dropped by the extraction.
func (r *Registry) isNoEffect(full string) bool {
	for _, p := range r.noEffect {
		if strings.HasSuffix(p, "*") {
			if strings.HasPrefix(full, strings.TrimSuffix(p, "*")) {
				return true
			}
		} else if full == p {
			return true
		}
	}
	return false
}

// sourceHash hashes the source text of a declaration.
func (r *Registry) sourceHash(n ast.Node) string {
	start := r.fset.Position(n.Pos())
	end := r.fset.Position(n.End())
	b, err := os.ReadFile(start.Filename)
	if err != nil || end.Offset > len(b) {
		return "?"
	}
	return fmt.Sprintf("%x", sha256.Sum256(b[start.Offset:end.Offset]))[:12]
}

// resolveSType converts a contract-language type into a Go type (nil for spec-only kinds).
func (r *Registry) resolveSType(pkg *packages.Package, t *SType) types.Type {
	switch t.Kind {
	case "name":
		if t.Pkg == "" {
			if o := types.Universe.Lookup(t.Name); o != nil {
				if tn, ok := o.(*types.TypeName); ok {
					return tn.Type()
				}
			}
			if pkg != nil {
				if o := pkg.Types.Scope().Lookup(t.Name); o != nil {
					if tn, ok := o.(*types.TypeName); ok {
						return tn.Type()
					}
				}
			}
			return nil
		}
		for _, p := range r.pkgs {
			if p.Name == t.Pkg && p.Types != nil {
				// prefer a package imported by pkg
				if pkg != nil {
					if _, ok := pkg.Imports[p.PkgPath]; !ok && p.PkgPath != pkg.PkgPath {
						continue
					}
				}
				if o := p.Types.Scope().Lookup(t.Name); o != nil {
					if tn, ok := o.(*types.TypeName); ok {
						return tn.Type()
					}
				}
			}
		}
		for _, p := range r.pkgs {
			if p.Name == t.Pkg && p.Types != nil {
				if o := p.Types.Scope().Lookup(t.Name); o != nil {
					if tn, ok := o.(*types.TypeName); ok {
						return tn.Type()
					}
				}
			}
		}
		return nil
	case "ptr":
		e := r.resolveSType(pkg, t.Elem)
		if e == nil {
			return nil
		}
		return types.NewPointer(e)
	case "slice":
		e := r.resolveSType(pkg, t.Elem)
		if e == nil {
			return nil
		}
		return types.NewSlice(e)
	case "map":
		k, e := r.resolveSType(pkg, t.Key), r.resolveSType(pkg, t.Elem)
		if k == nil || e == nil {
			return nil
		}
		return types.NewMap(k, e)
	}
	return nil
}

// specSortOf gives the SMT sort of a contract-language type.
func (r *Registry) specSortOf(pkg *packages.Package, t *SType) *Sort {
	switch t.Kind {
	case "mmap":
		return SArray(r.specSortOf(pkg, t.Key), r.specSortOf(pkg, t.Elem))
	case "set":
		return SArray(r.specSortOf(pkg, t.Elem), SBool)
	case "seq":
		return SArray(SInt, r.specSortOf(pkg, t.Elem))
	}
	gt := r.resolveSType(pkg, t)
	if gt == nil {
		panic(specError{"unknown type " + t.String()})
	}
	s, ok := scalarSort(gt)
	if !ok {
		panic(specError{"type " + t.String() + " is not scalar in a spec position"})
	}
	return s
}

// freshSpecValue makes a symbolic (or bound) value for a spec type.
func (r *Registry) specValue(pkg *packages.Package, t *SType, mk func(path string, s *Sort) *Term) *Value {
	switch t.Kind {
	case "mmap", "set":
		return &Value{K: VScalar, SpecKind: t.Kind, S: mk("", r.specSortOf(pkg, t)), T: r.specElemType(pkg, t)}
	case "seq":
		return &Value{K: VScalar, SpecKind: "seq", S: mk("", r.specSortOf(pkg, t)), Len: mk("#len", SInt), T: r.specElemType(pkg, t)}
	}
	gt := r.resolveSType(pkg, t)
	if gt == nil {
		panic(specError{"unknown type " + t.String()})
	}
	return buildValue(gt, "", mk)
}

// specElemType: for mmap/set/seq the Go type of the elements (may be nil).
func (r *Registry) specElemType(pkg *packages.Package, t *SType) types.Type {
	if t.Elem == nil {
		return nil
	}
	if t.Elem.Kind == "mmap" || t.Elem.Kind == "set" || t.Elem.Kind == "seq" {
		return nil
	}
	return r.resolveSType(pkg, t.Elem)
}

// finalGlobalLen: package-level slice variables initialised by a composite literal and never
// assigned, indexed-assigned or address-taken in their package: their length is a known constant.
var finalGlobalLen = map[string]int64{}
var finalGlobalElems = map[string][]string{}

// finalGlobalNonNil: package-level error variables created by fmt.Errorf / errors.New and never reassigned.
var finalGlobalNonNil = map[string]bool{}

func (r *Registry) computeFinalGlobals() {
	for path, p := range r.pkgs {
		if !strings.HasPrefix(path, modulePath) || p.TypesInfo == nil {
			continue
		}
		cand := map[*types.Var]int64{}
		errCand := map[*types.Var]bool{}
		elemCand := map[*types.Var][]string{}
		for _, f := range p.Syntax {
			for _, d := range f.Decls {
				gd, ok := d.(*ast.GenDecl)
				if !ok || gd.Tok != token.VAR {
					continue
				}
				for _, sp := range gd.Specs {
					vs := sp.(*ast.ValueSpec)
					if len(vs.Values) != len(vs.Names) {
						continue
					}
					for i, n := range vs.Names {
						if call, ok := vs.Values[i].(*ast.CallExpr); ok {
							// error values created once at package initialisation: non-nil if never reassigned
							if fn := calleeDisplayName(call, p.TypesInfo); fn == "fmt.Errorf" || fn == "errors.New" {
								if v, _ := p.TypesInfo.Defs[n].(*types.Var); v != nil {
									errCand[v] = true
								}
							}
						}
						cl, ok := vs.Values[i].(*ast.CompositeLit)
						if !ok {
							continue
						}
						v, _ := p.TypesInfo.Defs[n].(*types.Var)
						if v == nil || v.Exported() {
							continue
						}
						if _, isSlice := v.Type().Underlying().(*types.Slice); !isSlice {
							continue
						}
						keyed := false
						for _, e := range cl.Elts {
							if _, ok := e.(*ast.KeyValueExpr); ok {
								keyed = true
							}
						}
						if !keyed {
							cand[v] = int64(len(cl.Elts))
							// constant string elements are remembered too
							var elems []string
							allStr := true
							for _, e := range cl.Elts {
								tv, ok := p.TypesInfo.Types[e]
								if !ok || tv.Value == nil || tv.Value.Kind() != constant.String {
									allStr = false
									break
								}
								elems = append(elems, constant.StringVal(tv.Value))
							}
							if allStr {
								elemCand[v] = elems
							}
						}
					}
				}
			}
		}
		if len(cand) == 0 && len(errCand) == 0 {
			continue
		}
		kill := func(e ast.Expr) {
			for {
				switch x := e.(type) {
				case *ast.ParenExpr:
					e = x.X
					continue
				case *ast.IndexExpr:
					e = x.X
					continue
				case *ast.SliceExpr:
					e = x.X
					continue
				}
				break
			}
			if id, ok := e.(*ast.Ident); ok {
				if v, ok := p.TypesInfo.ObjectOf(id).(*types.Var); ok {
					delete(cand, v)
					delete(errCand, v)
				}
			}
		}
		for _, f := range p.Syntax {
			ast.Inspect(f, func(n ast.Node) bool {
				switch x := n.(type) {
				case *ast.AssignStmt:
					for _, l := range x.Lhs {
						kill(l)
					}
				case *ast.IncDecStmt:
					kill(x.X)
				case *ast.UnaryExpr:
					if x.Op == token.AND {
						kill(x.X)
					}
				case *ast.RangeStmt:
					if x.Tok == token.ASSIGN {
						if x.Key != nil {
							kill(x.Key)
						}
						if x.Value != nil {
							kill(x.Value)
						}
					}
				}
				return true
			})
		}
		for v, n := range cand {
			finalGlobalLen["g:"+v.Pkg().Path()+"."+v.Name()] = n
			if es, ok := elemCand[v]; ok {
				finalGlobalElems["g:"+v.Pkg().Path()+"."+v.Name()] = es
			}
		}
		for v := range errCand {
			finalGlobalNonNil["g:"+v.Pkg().Path()+"."+v.Name()] = true
		}
	}
}
