package main

// Symbolic values and the mapping from Go types to SMT representations.

import (
	"fmt"
	"go/types"
	"math/big"
	"strings"
)

type VKind int

const (
	VScalar VKind = iota // S
	VStruct              // F (by field index)
	VSlice               // Arr, Len
	VIface               // Typ, S (both Int)
	VTuple               // F
	VFunc                // Fn (+ S: abstract id when stored)
	VNone                // no value (call with no results)
)

type FuncVal struct {
	Fn      *types.Func // named function / method (nil for literal)
	Recv    *Value      // bound receiver for method values
	Lit     interface{} // *ast.FuncLit
	Env     *State      // captured state (vars by reference through the same maps is not needed: closures are executed inline or verified separately)
	Ordinal int
	Owner   *fctx
}

type Value struct {
	K   VKind
	T   types.Type
	S   *Term
	F   []*Value
	Arr *Term
	Len *Term
	Cap *Term // slice capacity (nil = same as Len, for values built by older code paths)
	Typ *Term
	Fn  *FuncVal
	// Ptr alias: pointer to a slice element or to a field, represented syntactically
	Alias *lvalue
	// spec-only kinds
	SpecKind string // "mmap", "set", "seq" (S holds an array term; Len for seq)
}

// capTerm returns the capacity (defaults to the length).
func (v *Value) capTerm() *Term {
	if v.Cap != nil {
		return v.Cap
	}
	return v.Len
}

func scalar(t *Term, ty types.Type) *Value { return &Value{K: VScalar, S: t, T: ty} }

func (v *Value) String() string {
	switch v.K {
	case VScalar:
		return v.S.String()
	case VSlice:
		return fmt.Sprintf("slice(%s,%s)", v.Arr, v.Len)
	case VIface:
		return fmt.Sprintf("iface(%s,%s)", v.Typ, v.S)
	case VStruct, VTuple:
		var ss []string
		for _, f := range v.F {
			ss = append(ss, f.String())
		}
		return "{" + strings.Join(ss, ", ") + "}"
	case VFunc:
		return "func"
	}
	return "none"
}

// opaque struct types modelled without fields
var opaqueStructs = map[string]bool{
	"sync.Mutex": true, "sync.RWMutex": true, "sync.Once": true, "sync.WaitGroup": true,
	"sync.Map": true, "sync/atomic.Bool": true,
}

func typeName(t types.Type) string {
	return types.TypeString(t, func(p *types.Package) string {
		return strings.TrimPrefix(strings.TrimPrefix(p.Path(), "github.com/megaease/easegress/"), "pkg/")
	})
}

func shortTypeName(t types.Type) string {
	return types.TypeString(t, func(p *types.Package) string { return p.Name() })
}

func isTimeTime(t types.Type) bool { return typeName(t) == "time.Time" }

func isOpaqueStruct(t types.Type) bool { return opaqueStructs[typeName(t)] }

// realSort is used for float64 (modelled as Real).
var SReal = &Sort{Name: "Real"}

// scalarSort returns the SMT sort when t is represented by a single term.
func scalarSort(t types.Type) (*Sort, bool) {
	if isTimeTime(t) {
		return SInt, true
	}
	switch u := t.Underlying().(type) {
	case *types.Basic:
		switch {
		case u.Info()&types.IsBoolean != 0:
			return SBool, true
		case u.Info()&types.IsString != 0:
			return SString, true
		case u.Info()&types.IsInteger != 0:
			return SInt, true
		case u.Info()&types.IsFloat != 0:
			return SReal, true
		case u.Kind() == types.UnsafePointer || u.Kind() == types.UntypedNil:
			return SInt, true
		}
	case *types.Pointer, *types.Map, *types.Chan, *types.Signature:
		return SInt, true
	}
	return nil, false
}

type leaf struct {
	Path string
	Sort *Sort
}

// leavesOf lists the scalar components of a value of Go type t.
func leavesOf(t types.Type) []leaf {
	if s, ok := scalarSort(t); ok {
		return []leaf{{"", s}}
	}
	switch u := t.Underlying().(type) {
	case *types.Slice:
		return []leaf{{"#arr", SInt}, {"#len", SInt}, {"#cap", SInt}}
	case *types.Interface:
		return []leaf{{"#typ", SInt}, {"#val", SInt}}
	case *types.Struct:
		if isOpaqueStruct(t) {
			return nil
		}
		var out []leaf
		for i := 0; i < u.NumFields(); i++ {
			f := u.Field(i)
			for _, l := range leavesOf(f.Type()) {
				out = append(out, leaf{"." + f.Name() + l.Path, l.Sort})
			}
		}
		return out
	case *types.Array:
		return []leaf{{"#arr", SInt}, {"#len", SInt}}
	case *types.TypeParam:
		return []leaf{{"", SInt}}
	}
	panic(unsupported("type " + typeName(t)))
}

// buildValue constructs a Value of type t by asking get(path, sort) for each leaf.
func buildValue(t types.Type, prefix string, get func(path string, s *Sort) *Term) *Value {
	if s, ok := scalarSort(t); ok {
		return &Value{K: VScalar, T: t, S: get(prefix, s)}
	}
	switch u := t.Underlying().(type) {
	case *types.Slice:
		return &Value{K: VSlice, T: t, Arr: get(prefix+"#arr", SInt), Len: get(prefix+"#len", SInt), Cap: get(prefix+"#cap", SInt)}
	case *types.Array:
		return &Value{K: VSlice, T: t, Arr: get(prefix+"#arr", SInt), Len: get(prefix+"#len", SInt)}
	case *types.Interface:
		return &Value{K: VIface, T: t, Typ: get(prefix+"#typ", SInt), S: get(prefix+"#val", SInt)}
	case *types.Struct:
		v := &Value{K: VStruct, T: t}
		if isOpaqueStruct(t) {
			return v
		}
		for i := 0; i < u.NumFields(); i++ {
			f := u.Field(i)
			v.F = append(v.F, buildValue(f.Type(), prefix+"."+f.Name(), get))
		}
		return v
	case *types.TypeParam:
		return &Value{K: VScalar, T: t, S: get(prefix, SInt)}
	}
	panic(unsupported("type " + typeName(t)))
}

// forEachLeaf walks the leaves of v (which must have the shape of its type).
func forEachLeaf(v *Value, prefix string, f func(path string, t *Term)) {
	switch v.K {
	case VScalar:
		f(prefix, v.S)
	case VFunc:
		if v.S != nil {
			f(prefix, v.S)
		} else {
			f(prefix, funcValID(v))
		}
	case VSlice:
		f(prefix+"#arr", v.Arr)
		f(prefix+"#len", v.Len)
		if _, isArr := v.T.Underlying().(*types.Array); !isArr {
			f(prefix+"#cap", v.capTerm())
		}
	case VIface:
		f(prefix+"#typ", v.Typ)
		f(prefix+"#val", v.S)
	case VStruct:
		if isOpaqueStruct(v.T) {
			return
		}
		st := v.T.Underlying().(*types.Struct)
		for i, fv := range v.F {
			forEachLeaf(fv, prefix+"."+st.Field(i).Name(), f)
		}
	}
}

var funcIDs = map[string]int64{}

// funcValID gives a function value a stable non-zero abstract identity.
func funcValID(v *Value) *Term {
	key := "lit"
	if v.Fn != nil && v.Fn.Fn != nil {
		key = v.Fn.Fn.FullName()
	} else if v.Fn != nil {
		key = fmt.Sprintf("lit%p", v.Fn.Lit)
	}
	id, ok := funcIDs[key]
	if !ok {
		id = int64(len(funcIDs) + 1)
		funcIDs[key] = id
	}
	return mkInt(1_000_000 + id)
}

// zeroValue returns the Go zero value of t.
func zeroValue(t types.Type) *Value {
	return buildValue(t, "", func(path string, s *Sort) *Term { return zeroTerm(s) })
}

func zeroTerm(s *Sort) *Term {
	switch s.Name {
	case "Int":
		return mkInt(0)
	case "Bool":
		return TFalse
	case "String":
		return mkStr("")
	case "Real":
		return mkApp("0.0", SReal)
	case "Array":
		return ConstArray(s, zeroTerm(s.V))
	}
	panic("zeroTerm: " + s.String())
}

var freshCounter int

func freshName(base string) string {
	freshCounter++
	return fmt.Sprintf("%s!%d", base, freshCounter)
}

// freshValue returns a fully symbolic value of type t.
func freshValue(t types.Type, base string) *Value {
	n := freshName(base)
	return buildValue(t, "", func(path string, s *Sort) *Term { return mkVar(n+path, s) })
}

// valueEq returns the term stating a == b (component-wise).
func valueEq(a, b *Value) *Term {
	if a.K == VIface && b.K != VIface {
		b = toIface(b)
	}
	if b.K == VIface && a.K != VIface {
		a = toIface(a)
	}
	switch a.K {
	case VScalar:
		if b.K == VFunc {
			return Eq(a.S, funcValID(b))
		}
		return Eq(a.S, b.S)
	case VFunc:
		if b.K == VScalar {
			return Eq(funcValID(a), b.S)
		}
		return Eq(funcValID(a), funcValID(b))
	case VSlice:
		return And(Eq(a.Arr, b.Arr), Eq(a.Len, b.Len))
	case VIface:
		return And(Eq(a.Typ, b.Typ), Eq(a.S, b.S))
	case VStruct, VTuple:
		var cs []*Term
		for i := range a.F {
			cs = append(cs, valueEq(a.F[i], b.F[i]))
		}
		return And(cs...)
	}
	panic("valueEq: kind")
}

// valueIte builds ite(c, a, b) component-wise.
func valueIte(c *Term, a, b *Value) *Value {
	if a == b {
		return a
	}
	if a.K != b.K {
		// a known function value merged with an unknown one (abstract id): the result is an unknown
		// function value; calls through it need a contract (function type / `Func#name`)
		if a.K == VFunc && b.K == VScalar && b.S != nil && b.S.Sort == SInt {
			return &Value{K: VScalar, T: b.T, S: Ite(c, funcValID(a), b.S)}
		}
		if b.K == VFunc && a.K == VScalar && a.S != nil && a.S.Sort == SInt {
			return &Value{K: VScalar, T: a.T, S: Ite(c, a.S, funcValID(b))}
		}
		panic(unsupported(fmt.Sprintf("merge of values with different shapes (%d vs %d)", a.K, b.K)))
	}
	switch a.K {
	case VScalar:
		return &Value{K: VScalar, T: a.T, S: Ite(c, a.S, b.S), SpecKind: a.SpecKind, Len: iteOpt(c, a.Len, b.Len)}
	case VSlice:
		return &Value{K: VSlice, T: a.T, Arr: Ite(c, a.Arr, b.Arr), Len: Ite(c, a.Len, b.Len), Cap: Ite(c, a.capTerm(), b.capTerm())}
	case VIface:
		return &Value{K: VIface, T: a.T, Typ: Ite(c, a.Typ, b.Typ), S: Ite(c, a.S, b.S)}
	case VStruct, VTuple:
		v := &Value{K: a.K, T: a.T}
		for i := range a.F {
			v.F = append(v.F, valueIte(c, a.F[i], b.F[i]))
		}
		return v
	case VFunc:
		if a.Fn == b.Fn {
			return a
		}
		return &Value{K: VScalar, T: a.T, S: Ite(c, funcValID(a), funcValID(b))}
	case VNone:
		return a
	}
	panic("valueIte")
}

func iteOpt(c, a, b *Term) *Term {
	if a == nil || b == nil {
		return nil
	}
	return Ite(c, a, b)
}

// dynamic type tags for interface values
var typeTags = map[string]int64{}
var typeTagNames = map[int64]string{}
var typeTagTypes = map[int64]types.Type{}
var seenIfaces = map[string]types.Type{} // named interface types seen as static types of converted values

func typeTag(t types.Type) *Term {
	if t == nil {
		return mkInt(0)
	}
	n := typeName(t)
	id, ok := typeTags[n]
	if !ok {
		id = int64(len(typeTags) + 1)
		typeTags[n] = id
		typeTagNames[id] = n
	}
	if _, ok := typeTagTypes[id]; !ok {
		typeTagTypes[id] = t
	}
	return mkInt(id)
}

// toIface converts a concrete value to an interface value.
func toIface(v *Value) *Value {
	if v.K == VIface {
		return v
	}
	if v.K == VScalar {
		if b, ok := v.T.(*types.Basic); ok && b.Kind() == types.UntypedNil {
			return &Value{K: VIface, Typ: mkInt(0), S: mkInt(0)}
		}
		if v.T == nil {
			return &Value{K: VIface, Typ: mkInt(0), S: v.S}
		}
		switch {
		case v.S.Sort == SInt:
			return &Value{K: VIface, T: v.T, Typ: typeTag(v.T), S: v.S}
		case v.S.Sort == SString:
			return &Value{K: VIface, T: v.T, Typ: typeTag(v.T), S: mkUF("box.String", SInt, v.S)}
		case v.S.Sort == SBool:
			return &Value{K: VIface, T: v.T, Typ: typeTag(v.T), S: Ite(v.S, mkInt(1), mkInt(0))}
		}
	}
	if v.K == VFunc {
		return &Value{K: VIface, T: v.T, Typ: typeTag(v.T), S: funcValID(v)}
	}
	panic(unsupported("conversion of composite value to interface"))
}

type unsupportedErr struct{ what string }

func unsupported(what string) unsupportedErr { return unsupportedErr{what} }

func (u unsupportedErr) Error() string { return "unsupported: " + u.what }

// integer type ranges
func intRange(t types.Type) (lo, hi *Term, ok bool) {
	b, isB := t.Underlying().(*types.Basic)
	if !isB || b.Info()&types.IsInteger == 0 {
		return nil, nil, false
	}
	pow := func(n uint) *Term {
		return mkBig(new(big.Int).Lsh(big.NewInt(1), n))
	}
	sub1 := func(t *Term) *Term { return Sub(t, mkInt(1)) }
	switch b.Kind() {
	case types.Int8:
		return Neg(pow(7)), sub1(pow(7)), true
	case types.Int16:
		return Neg(pow(15)), sub1(pow(15)), true
	case types.Int32:
		return Neg(pow(31)), sub1(pow(31)), true
	case types.Int, types.Int64, types.UntypedInt:
		return Neg(pow(63)), sub1(pow(63)), true
	case types.Uint8:
		return mkInt(0), sub1(pow(8)), true
	case types.Uint16:
		return mkInt(0), sub1(pow(16)), true
	case types.Uint32:
		return mkInt(0), sub1(pow(32)), true
	case types.Uint, types.Uint64, types.Uintptr:
		return mkInt(0), sub1(pow(64)), true
	}
	return nil, nil, false
}

// typeConstraints returns the facts true of any value of its Go type (integer ranges, len >= 0, ref >= 0).
func typeConstraints(v *Value) []*Term {
	var out []*Term
	var walk func(v *Value)
	walk = func(v *Value) {
		switch v.K {
		case VScalar:
			if v.T == nil || v.S == nil {
				return
			}
			if isTimeTime(v.T) {
				return
			}
			if lo, hi, ok := intRange(v.T); ok {
				out = append(out, Le(lo, v.S), Le(v.S, hi))
				return
			}
			switch v.T.Underlying().(type) {
			case *types.Pointer, *types.Map, *types.Chan, *types.Signature:
				out = append(out, Ge(v.S, mkInt(0)))
			}
		case VSlice:
			out = append(out, Ge(v.Len, mkInt(0)), Ge(v.Arr, mkInt(0)), Implies(Eq(v.Arr, mkInt(0)), Eq(v.Len, mkInt(0))), Ge(v.capTerm(), v.Len))
		case VIface:
			out = append(out, Ge(v.Typ, mkInt(0)), Implies(Eq(v.Typ, mkInt(0)), Eq(v.S, mkInt(0))))
		case VStruct, VTuple:
			for _, f := range v.F {
				walk(f)
			}
		}
	}
	walk(v)
	return out
}
