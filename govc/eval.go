package main

// Evaluation of Go expressions over the symbolic state.

import (
	"fmt"
	"go/ast"
	"go/constant"
	"go/token"
	"go/types"
	"math/big"
	"strings"

	"golang.org/x/tools/go/packages"
)

// Obligation is one proof obligation (possibly generated on several paths).
type Obligation struct {
	Name   string
	Hyps   []*Term
	Goal   *Term
	Kind   string // ensures, pre, safe, inv, frame, lemma, vacuity, cover
	Func   string
	Note   string
	Expect string // "unsat" (default) or "sat" (vacuity / cover checks)
}

// frame is one activation (the verified function or an inlined callee).
type frame struct {
	fc               *fctx
	pkg              *packages.Package
	info             *types.Info
	fn               *types.Func
	sig              *types.Signature
	resVars          []*types.Var
	prefix           string // obligation name prefix for inlined frames
	ords             map[ast.Node]int
	loopOrd          map[ast.Node]int
	litOrd           map[*ast.FuncLit]int
	viaApplyContract bool
	hookContract     *FuncContract     // inlined literal without a contract of its own: the enclosing contract, for ordinal-free `ghost at call Name` hooks
	outerExtras      map[string]*Value // names of enclosing range loops visible to nested loop invariants
	callOrd          map[*ast.CallExpr]int
	deferBase        int
	contract         *FuncContract // contract whose invariants apply to loops of this frame (nil for inlined)
	depth            int
	recvAliasPrefix  string // loop scan: heap class prefix of an embedded-struct receiver
	recvAliasType    types.Type
	scanState        *State // loop scan: the state at the loop head (to resolve locals holding function literals)
}

// fctx is the verification context of one function under contract.
type fctx struct {
	reg               *Registry
	name              string
	obls              []*Obligation
	entry             *State
	contract          *FuncContract
	root              *frame
	paramVals         map[string]*Value // contract param name -> entry value
	resNames          []string
	inlineStack       []string
	paths             int
	modLocs           []modLoc // evaluated modifies clause (entry state)
	lockSnap          map[string]*Term
	lockedOld         *State
	notes             []string
	ghostCalls        map[string]int
	ovfCount          int
	ifaceFactsPending bool
	capturedEntry     map[string]*Value     // closure units: entry values of captured locals (visible in old())
	rebind            map[string]*types.Var // contract name of a renamed local -> current variable (lock.go)
	lastPos           string                // source position of the statement being executed (for messages only)
}

type modLoc struct {
	class   string // leaf class
	ref     *Term  // nil => whole class / global
	all     bool
	elemsOf *Term // for elems(s): backing array ref
}

func (fc *fctx) oblige(st *State, fr *frame, kind, name string, goal *Term) {
	if goal.isTrue() || st.dead {
		return
	}
	full := fc.name + "/" + fr.prefix + name
	allKnown := true
	for _, g := range conjuncts(goal) {
		if !st.pcSet[g.id] {
			allKnown = false
		}
	}
	if allKnown {
		return
	}
	for i, g := range conjuncts(goal) {
		n := full
		if len(conjuncts(goal)) > 1 {
			n = fmt.Sprintf("%s.%d", full, i+1)
		}
		fc.obls = append(fc.obls, &Obligation{Name: n, Hyps: append([]*Term(nil), st.pc...), Goal: g, Kind: kind, Func: fc.name, Note: fc.lastPos})
	}
	st.assume(goal)
}

// ---- ordinals ----

func computeOrdinals(body ast.Node, info *types.Info) (ords map[ast.Node]int, loops map[ast.Node]int, lits map[*ast.FuncLit]int, calls map[*ast.CallExpr]int) {
	ords = map[ast.Node]int{}
	loops = map[ast.Node]int{}
	lits = map[*ast.FuncLit]int{}
	calls = map[*ast.CallExpr]int{}
	cnt := map[string]int{}
	callCnt := map[string]int{}
	var walk func(n ast.Node, top bool) bool
	visit := func(n ast.Node) bool {
		switch x := n.(type) {
		case *ast.FuncLit:
			cnt["lit"]++
			lits[x] = cnt["lit"]
			// nested literals: loops inside them are numbered by their own contract
			return false
		case *ast.ForStmt, *ast.RangeStmt:
			cnt["loop"]++
			loops[n] = cnt["loop"]
		case *ast.IndexExpr:
			cnt["idx"]++
			ords[n] = cnt["idx"]
		case *ast.SliceExpr:
			cnt["slice"]++
			ords[n] = cnt["slice"]
		case *ast.StarExpr:
			cnt["nil"]++
			ords[n] = cnt["nil"]
		case *ast.SelectorExpr:
			cnt["nil"]++
			ords[n] = cnt["nil"]
		case *ast.TypeAssertExpr:
			cnt["assert"]++
			ords[n] = cnt["assert"]
		case *ast.BinaryExpr:
			if x.Op == token.QUO || x.Op == token.REM {
				cnt["div"]++
				ords[n] = cnt["div"]
			}
		case *ast.AssignStmt:
			if x.Tok == token.QUO_ASSIGN || x.Tok == token.REM_ASSIGN {
				cnt["div"]++
				ords[n] = cnt["div"]
			}
		case *ast.CallExpr:
			name := calleeDisplayName(x, info)
			callCnt[name]++
			calls[x] = callCnt[name]
			if id, ok := x.Fun.(*ast.Ident); ok && id.Name == "panic" {
				cnt["panic"]++
				ords[n] = cnt["panic"]
			}
		}
		return true
	}
	_ = walk
	ast.Inspect(body, func(n ast.Node) bool {
		if n == nil {
			return true
		}
		if n == body {
			if _, isLit := n.(*ast.FuncLit); isLit {
				return true
			}
		}
		return visit(n)
	})
	return
}

func calleeDisplayName(c *ast.CallExpr, info *types.Info) string {
	switch f := c.Fun.(type) {
	case *ast.Ident:
		return f.Name
	case *ast.SelectorExpr:
		if info != nil {
			if sel, ok := info.Selections[f]; ok {
				return shortRecv(sel.Recv()) + "." + f.Sel.Name
			}
		}
		if id, ok := f.X.(*ast.Ident); ok {
			return id.Name + "." + f.Sel.Name
		}
		return f.Sel.Name
	}
	return "func"
}

func shortRecv(t types.Type) string {
	if p, ok := t.(*types.Pointer); ok {
		t = p.Elem()
	}
	if n, ok := t.(*types.Named); ok {
		return n.Obj().Name()
	}
	return shortTypeName(t)
}

// ---- constants ----

func constValue(tv types.TypeAndValue) *Value {
	v := tv.Value
	switch v.Kind() {
	case constant.Bool:
		return scalar(mkBool(constant.BoolVal(v)), tv.Type)
	case constant.String:
		return scalar(mkStr(constant.StringVal(v)), tv.Type)
	case constant.Int:
		if b, ok := tv.Type.Underlying().(*types.Basic); ok && b.Info()&types.IsFloat != 0 {
			return scalar(realLit(v), tv.Type)
		}
		bi, _ := new(big.Int).SetString(v.ExactString(), 10)
		return scalar(mkBig(bi), tv.Type)
	case constant.Float:
		if b, ok := tv.Type.Underlying().(*types.Basic); ok && b.Info()&types.IsInteger != 0 {
			if i := constant.ToInt(v); i.Kind() == constant.Int {
				bi, _ := new(big.Int).SetString(i.ExactString(), 10)
				return scalar(mkBig(bi), tv.Type)
			}
		}
		return scalar(realLit(v), tv.Type)
	}
	panic(unsupported("constant kind"))
}

func realLit(v constant.Value) *Term {
	num := constant.Num(v)
	den := constant.Denom(v)
	if num.Kind() != constant.Int || den.Kind() != constant.Int {
		panic(unsupported("non-rational float constant"))
	}
	n := num.ExactString()
	neg := strings.HasPrefix(n, "-")
	n = strings.TrimPrefix(n, "-")
	s := "(/ " + n + ".0 " + den.ExactString() + ".0)"
	if neg {
		s = "(- " + s + ")"
	}
	return mkApp(s, SReal)
}

// ---- expressions ----

func (fr *frame) typeOf(e ast.Expr) types.Type {
	if tv, ok := fr.info.Types[e]; ok {
		return tv.Type
	}
	if id, ok := e.(*ast.Ident); ok {
		if o := fr.info.ObjectOf(id); o != nil {
			return o.Type()
		}
	}
	panic(fmt.Sprintf("internal: no type for expression %T", e))
}

func nilValue(t types.Type) *Value {
	return zeroValue(t)
}

// eval evaluates e to a value.
func (fr *frame) eval(st *State, e ast.Expr) *Value {
	if tv, ok := fr.info.Types[e]; ok && tv.Value != nil {
		return constValue(tv)
	}
	switch x := e.(type) {
	case *ast.ParenExpr:
		return fr.eval(st, x.X)
	case *ast.Ident:
		return fr.evalIdent(st, x)
	case *ast.BasicLit:
		panic("internal: literal without constant value")
	case *ast.SelectorExpr:
		return fr.evalSelector(st, x)
	case *ast.StarExpr:
		p := fr.eval(st, x.X)
		lv := fr.derefLV(st, p, fr.typeOf(x.X), "safe.nil", fr.ords[x])
		return st.load(lv)
	case *ast.UnaryExpr:
		return fr.evalUnary(st, x)
	case *ast.BinaryExpr:
		return fr.evalBinary(st, x)
	case *ast.IndexExpr:
		// generic instantiation?
		if tv, ok := fr.info.Types[x.X]; ok && !tv.IsValue() {
			panic(unsupported("generic instantiation expression"))
		}
		lv := fr.indexLV(st, x)
		return st.load(lv)
	case *ast.SliceExpr:
		return fr.evalSliceExpr(st, x)
	case *ast.CallExpr:
		vs := fr.evalCall(st, x)
		switch len(vs) {
		case 0:
			return &Value{K: VNone}
		case 1:
			return vs[0]
		}
		return &Value{K: VTuple, F: vs}
	case *ast.CompositeLit:
		return fr.evalCompositeLit(st, x, fr.typeOf(x))
	case *ast.FuncLit:
		return &Value{K: VFunc, T: fr.typeOf(x), Fn: &FuncVal{Lit: x, Ordinal: fr.litOrd[x], Owner: fr.fc}}
	case *ast.TypeAssertExpr:
		v, ok := fr.evalTypeAssert(st, x)
		fr.fc.oblige(st, fr, "safe", fmt.Sprintf("safe.assert#%d", fr.ords[x]), ok)
		return v
	case *ast.KeyValueExpr:
		panic("internal: key-value outside literal")
	}
	panic(unsupported(fmt.Sprintf("expression %T", e)))
}

func (fr *frame) evalIdent(st *State, id *ast.Ident) *Value {
	obj := fr.info.ObjectOf(id)
	switch o := obj.(type) {
	case *types.Nil:
		return nilValue(fr.typeOf(id))
	case *types.Const:
		return constValue(types.TypeAndValue{Type: o.Type(), Value: o.Val()})
	case *types.Var:
		if v, ok := st.vars[o]; ok {
			return v
		}
		if o.Parent() == o.Pkg().Scope() || o.Pkg() != nil && o.Pkg().Scope().Lookup(o.Name()) == o {
			return st.load(globalLV(o))
		}
		panic(fmt.Sprintf("internal: unbound variable %s at %s", id.Name, fr.fc.reg.fset.Position(id.Pos())))
	case *types.Func:
		return &Value{K: VFunc, T: o.Type(), Fn: &FuncVal{Fn: o}}
	case *types.Builtin:
		panic(unsupported("builtin " + id.Name + " used as a value"))
	}
	if id.Name == "_" {
		panic(unsupported("blank identifier read"))
	}
	panic(unsupported(fmt.Sprintf("identifier %s (%T)", id.Name, obj)))
}

func globalLV(o *types.Var) *lvalue {
	return &lvalue{kind: lvGlobal, T: o.Type(), prefix: "g:" + o.Pkg().Path() + "." + o.Name()}
}

// derefLV turns a pointer value into the l-value of its target, emitting a nil-check obligation.
func (fr *frame) derefLV(st *State, p *Value, ptrT types.Type, kind string, ord int) *lvalue {
	if p.Alias != nil {
		return p.Alias
	}
	pt, ok := ptrT.Underlying().(*types.Pointer)
	if !ok {
		panic(unsupported("dereference of non-pointer " + typeName(ptrT)))
	}
	if kind != "" {
		fr.fc.oblige(st, fr, "safe", fmt.Sprintf("%s#%d", kind, ord), Neq(p.S, mkInt(0)))
	}
	if _, isStruct := pt.Elem().Underlying().(*types.Struct); !isStruct {
		// pointer to a non-struct cell: modelled as a one-field box
		return &lvalue{kind: lvHeap, T: pt.Elem(), ref: p.S, prefix: "box<" + typeName(pt.Elem()) + ">"}
	}
	return &lvalue{kind: lvHeap, T: pt.Elem(), ref: p.S, prefix: structClass(pt.Elem())}
}

// lvalueOf computes the l-value denoted by e (nil when e is not addressable in the model).
func (fr *frame) lvalueOf(st *State, e ast.Expr) *lvalue {
	switch x := e.(type) {
	case *ast.ParenExpr:
		return fr.lvalueOf(st, x.X)
	case *ast.Ident:
		if x.Name == "_" {
			return &lvalue{kind: lvBlank}
		}
		obj := fr.info.ObjectOf(x)
		v, ok := obj.(*types.Var)
		if !ok {
			return nil
		}
		if _, bound := st.vars[v]; bound {
			return &lvalue{kind: lvVar, obj: v, T: v.Type()}
		}
		if v.Pkg() != nil && v.Pkg().Scope().Lookup(v.Name()) == v {
			return globalLV(v)
		}
		// first definition
		return &lvalue{kind: lvVar, obj: v, T: v.Type()}
	case *ast.SelectorExpr:
		sel, ok := fr.info.Selections[x]
		if !ok {
			// qualified identifier pkg.Var
			if v, ok := fr.info.ObjectOf(x.Sel).(*types.Var); ok {
				return globalLV(v)
			}
			return nil
		}
		if sel.Kind() != types.FieldVal {
			return nil
		}
		return fr.selectLV(st, x, sel)
	case *ast.IndexExpr:
		return fr.indexLV(st, x)
	case *ast.StarExpr:
		p := fr.eval(st, x.X)
		return fr.derefLV(st, p, fr.typeOf(x.X), "safe.nil", fr.ords[x])
	}
	return nil
}

// selectLV resolves a field selection (possibly through embedded fields and implicit dereferences).
func (fr *frame) selectLV(st *State, x *ast.SelectorExpr, sel *types.Selection) *lvalue {
	baseT := fr.typeOf(x.X)
	var lv *lvalue
	var val *Value
	if l := fr.lvalueOf(st, x.X); l != nil && l.kind != lvBlank {
		lv = l
		if _, isPtr := baseT.Underlying().(*types.Pointer); isPtr {
			val = st.load(l)
			lv = nil
		}
	} else {
		val = fr.eval(st, x.X)
	}
	t := baseT
	for _, idx := range sel.Index() {
		if pt, isPtr := t.Underlying().(*types.Pointer); isPtr {
			if val == nil {
				val = st.load(lv)
			}
			lv = fr.derefLV(st, val, t, "safe.nil", fr.ords[x])
			val = nil
			t = pt.Elem()
		}
		stt, ok := t.Underlying().(*types.Struct)
		if !ok {
			panic(unsupported("selection on non-struct " + typeName(t)))
		}
		if lv != nil {
			lv = lv.field(stt, idx)
		} else {
			// r-value struct: component
			val = val.F[idx]
			if val.Alias != nil {
				lv, val = val.Alias, nil
			}
		}
		t = stt.Field(idx).Type()
	}
	if lv == nil {
		// materialise as temporary
		return &lvalue{kind: lvVar, obj: tempVar(st, val, t), T: t}
	}
	return lv
}

var tempCount int

func tempVar(st *State, v *Value, t types.Type) *types.Var {
	tempCount++
	o := types.NewVar(token.NoPos, nil, fmt.Sprintf("tmp$%d", tempCount), t)
	st.vars[o] = v
	return o
}

func (fr *frame) evalSelector(st *State, x *ast.SelectorExpr) *Value {
	sel, ok := fr.info.Selections[x]
	if !ok {
		// qualified identifier
		return fr.evalIdent(st, x.Sel)
	}
	switch sel.Kind() {
	case types.FieldVal:
		// ghost? no: ghost fields only appear in specs
		return st.load(fr.selectLV(st, x, sel))
	case types.MethodVal:
		recv := fr.eval(st, x.X)
		fn := sel.Obj().(*types.Func)
		return &Value{K: VFunc, T: sel.Type(), Fn: &FuncVal{Fn: fn, Recv: recv}}
	}
	panic(unsupported("method expression"))
}

func (fr *frame) indexLV(st *State, x *ast.IndexExpr) *lvalue {
	bt := fr.typeOf(x.X)
	switch u := bt.Underlying().(type) {
	case *types.Slice:
		s := fr.eval(st, x.X)
		i := fr.eval(st, x.Index)
		fr.fc.oblige(st, fr, "safe", fmt.Sprintf("safe.idx#%d", fr.ords[x]), And(Le(mkInt(0), i.S), Lt(i.S, s.Len)))
		return &lvalue{kind: lvElem, T: u.Elem(), ref: s.Arr, idx: i.S, prefix: elemClass(u.Elem())}
	case *types.Array:
		s := fr.eval(st, x.X)
		i := fr.eval(st, x.Index)
		fr.fc.oblige(st, fr, "safe", fmt.Sprintf("safe.idx#%d", fr.ords[x]), And(Le(mkInt(0), i.S), Lt(i.S, mkInt(u.Len()))))
		return &lvalue{kind: lvElem, T: u.Elem(), ref: s.Arr, idx: i.S, prefix: elemClass(u.Elem())}
	case *types.Map:
		m := fr.eval(st, x.X)
		k := fr.eval(st, x.Index)
		return &lvalue{kind: lvMap, T: u.Elem(), ref: m.S, idx: keyTerm(k), mapT: u}
	case *types.Basic:
		if u.Info()&types.IsString != 0 {
			s := fr.eval(st, x.X)
			i := fr.eval(st, x.Index)
			fr.fc.oblige(st, fr, "safe", fmt.Sprintf("safe.idx#%d", fr.ords[x]), And(Le(mkInt(0), i.S), Lt(i.S, StrLen(s.S))))
			tv := tempVar(st, scalar(mkApp("str.to_code", SInt, StrAt(s.S, i.S)), types.Typ[types.Uint8]), types.Typ[types.Uint8])
			st.assume(Ge(st.vars[tv].S, mkInt(0)), Le(st.vars[tv].S, mkInt(255)))
			return &lvalue{kind: lvVar, obj: tv, T: types.Typ[types.Uint8]}
		}
	case *types.Pointer:
		if at, ok := u.Elem().Underlying().(*types.Array); ok {
			_ = at
			panic(unsupported("index through pointer to array"))
		}
	}
	panic(unsupported("index of " + typeName(bt)))
}

func keyTerm(k *Value) *Term {
	if k.K != VScalar {
		panic(unsupported("composite map key"))
	}
	return k.S
}

func (fr *frame) evalSliceExpr(st *State, x *ast.SliceExpr) *Value {
	bt := fr.typeOf(x.X)
	base := fr.eval(st, x.X)
	var lo, hi *Term
	if x.Low != nil {
		lo = fr.eval(st, x.Low).S
	} else {
		lo = mkInt(0)
	}
	switch u := bt.Underlying().(type) {
	case *types.Basic:
		if u.Info()&types.IsString != 0 {
			if x.High != nil {
				hi = fr.eval(st, x.High).S
			} else {
				hi = StrLen(base.S)
			}
			fr.fc.oblige(st, fr, "safe", fmt.Sprintf("safe.slice#%d", fr.ords[x]), And(Le(mkInt(0), lo), Le(lo, hi), Le(hi, StrLen(base.S))))
			sub := StrSubstr(base.S, lo, Sub(hi, lo))
			// (the bounds were just established by the safe.slice obligation)
			st.assume(Eq(StrLen(sub), Sub(hi, lo)))
			return scalar(sub, bt)
		}
	case *types.Slice:
		if x.High != nil {
			hi = fr.eval(st, x.High).S
		} else {
			hi = base.Len
		}
		// NOTE: capacity is not modelled; hi <= len is demanded (stricter than Go's hi <= cap).
		fr.fc.oblige(st, fr, "safe", fmt.Sprintf("safe.slice#%d", fr.ords[x]), And(Le(mkInt(0), lo), Le(lo, hi), Le(hi, base.Len)))
		if lo.Kind == KInt && lo.Int.Sign() == 0 {
			return &Value{K: VSlice, T: bt, Arr: base.Arr, Len: hi, Cap: base.capTerm()}
		}
		// fresh view: contents copied (aliasing of writes through the view is not modelled)
		nr := st.newRef("subslice")
		fr.fc.reg.assumptions["sub-slice s[i:j] with i>0 is a copy (writes through it do not alias the original)"] = true
		res := &Value{K: VSlice, T: bt, Arr: nr, Len: Sub(hi, lo)}
		for _, l := range leavesOf(u.Elem()) {
			cls := elemClass(u.Elem()) + l.Path
			as := SArray(SInt, l.Sort)
			noteClass(cls, as, false)
			h := st.heapArr(cls, as)
			k := mkBVar(freshName("k"), SInt)
			fresh := mkVar(freshName("sub"), as)
			st.assume(Forall([]*Term{k}, Implies(And(Le(mkInt(0), k), Lt(k, Sub(hi, lo))), Eq(Select(fresh, k), Select(Select(h, base.Arr), Add(lo, k))))))
			st.heap[cls] = Store(h, nr, fresh)
		}
		return res
	}
	panic(unsupported("slice expression on " + typeName(bt)))
}

func (fr *frame) evalUnary(st *State, x *ast.UnaryExpr) *Value {
	switch x.Op {
	case token.NOT:
		v := fr.eval(st, x.X)
		return scalar(Not(v.S), v.T)
	case token.SUB:
		v := fr.eval(st, x.X)
		if v.S.Sort == SReal {
			return scalar(mkApp("-", SReal, v.S), v.T)
		}
		return scalar(Neg(v.S), v.T)
	case token.ADD:
		return fr.eval(st, x.X)
	case token.AND:
		// &T{...}
		if cl, ok := unparen(x.X).(*ast.CompositeLit); ok {
			t := fr.typeOf(cl)
			v := fr.evalCompositeLit(st, cl, t)
			r := st.newRef("new:" + shortTypeName(t))
			st.storeObj(structClass(t), r, v)
			return scalar(r, fr.typeOf(x))
		}
		lv := fr.lvalueOf(st, x.X)
		if lv == nil {
			panic(unsupported("address of non-addressable expression"))
		}
		switch lv.kind {
		case lvHeap, lvElem, lvGlobal:
			// whole object? (&*p)
			if lv.kind == lvHeap && lv.prefix == structClass(lv.T) {
				return scalar(lv.ref, fr.typeOf(x))
			}
			return &Value{K: VScalar, T: fr.typeOf(x), S: aliasAddr(st, lv), Alias: lv}
		case lvVar:
			// address of a local: an alias pointer (never nil)
			av := mkVar(freshName("alias"), SInt)
			st.assume(Gt(av, mkInt(0)))
			return &Value{K: VScalar, T: fr.typeOf(x), S: av, Alias: lv}
		}
		panic(unsupported("address-of"))
	case token.ARROW:
		// channel receive: havoc
		fr.fc.reg.assumptions["channel receive yields an arbitrary value"] = true
		return freshValue(fr.typeOf(x), "recv")
	case token.XOR:
		v := fr.eval(st, x.X)
		return scalar(mkUF("bitnot", SInt, v.S), v.T)
	}
	panic(unsupported("unary operator " + x.Op.String()))
}

func unparen(e ast.Expr) ast.Expr {
	for {
		p, ok := e.(*ast.ParenExpr)
		if !ok {
			return e
		}
		e = p.X
	}
}

func (fr *frame) evalBinary(st *State, x *ast.BinaryExpr) *Value {
	t := fr.typeOf(x)
	switch x.Op {
	case token.LAND, token.LOR:
		a := fr.eval(st, x.X)
		// evaluate the right operand under the short-circuit condition
		guard := a.S
		if x.Op == token.LOR {
			guard = Not(a.S)
		}
		sub := st.clone()
		sub.assume(guard)
		b := fr.eval(sub, x.Y)
		// propagate effects of the right operand (heap changes, new facts) conditionally
		fr.absorbConditional(st, sub, guard)
		if x.Op == token.LAND {
			return scalar(And(a.S, b.S), t)
		}
		return scalar(Or(a.S, b.S), t)
	}
	a := fr.eval(st, x.X)
	b := fr.eval(st, x.Y)
	return fr.binop(st, x.Op, a, b, t, x)
}

// absorbConditional merges the effects computed in sub (a clone of st extended under guard) back into st.
func (fr *frame) absorbConditional(st, sub *State, guard *Term) {
	var ex []*Term
	for _, h := range sub.pc {
		if !st.pcSet[h.id] && h != guard {
			ex = append(ex, h)
		}
	}
	for k, v := range sub.heap {
		old, ok := st.heap[k]
		if !ok {
			old = initialHeapTerm(k, v.Sort)
			if v == old {
				st.heap[k] = v // first touch only created the initial variable
				continue
			}
		}
		if old != v {
			st.heap[k] = Ite(guard, v, old)
		}
	}
	if sub.alloc != st.alloc && sub.alloc != nil {
		if st.alloc == nil {
			st.alloc = mkVar("alloc0", SArray(SInt, SBool))
		}
		st.alloc = Ite(guard, sub.alloc, st.alloc)
	}
	for k, v := range sub.vars {
		if old, ok := st.vars[k]; !ok {
			st.vars[k] = v // temporaries
		} else if old != v {
			// a local (e.g. a variable captured by the conditionally executed literal) was assigned
			st.vars[k] = valueIte(guard, v, old)
		}
	}
	if len(ex) > 0 {
		st.assume(Implies(guard, And(ex...)))
	}
}

func isUnsigned(t types.Type) bool {
	b, ok := t.Underlying().(*types.Basic)
	return ok && b.Info()&types.IsUnsigned != 0
}

func isFloat(t types.Type) bool {
	b, ok := t.Underlying().(*types.Basic)
	return ok && b.Info()&types.IsFloat != 0
}

func (fr *frame) binop(st *State, op token.Token, a, b *Value, t types.Type, site ast.Node) *Value {
	switch op {
	case token.EQL:
		return scalar(goEq(a, b), t)
	case token.NEQ:
		return scalar(Not(goEq(a, b)), t)
	}
	if a.K != VScalar || b.K != VScalar {
		panic(unsupported("binary operator on composite values"))
	}
	if a.S.Sort == SReal || b.S.Sort == SReal {
		ra, rb := toReal(a.S), toReal(b.S)
		switch op {
		case token.ADD:
			return scalar(mkApp("+", SReal, ra, rb), t)
		case token.SUB:
			return scalar(mkApp("-", SReal, ra, rb), t)
		case token.MUL:
			return scalar(mkApp("*", SReal, ra, rb), t)
		case token.QUO:
			return scalar(mkApp("/", SReal, ra, rb), t)
		case token.LSS:
			return scalar(mkApp("<", SBool, ra, rb), t)
		case token.LEQ:
			return scalar(mkApp("<=", SBool, ra, rb), t)
		case token.GTR:
			return scalar(mkApp(">", SBool, ra, rb), t)
		case token.GEQ:
			return scalar(mkApp(">=", SBool, ra, rb), t)
		}
		panic(unsupported("float operator " + op.String()))
	}
	if a.S.Sort == SString {
		switch op {
		case token.ADD:
			return scalar(StrCat(a.S, b.S), t)
		case token.LSS:
			return scalar(mkApp("str.<", SBool, a.S, b.S), t)
		case token.LEQ:
			return scalar(mkApp("str.<=", SBool, a.S, b.S), t)
		case token.GTR:
			return scalar(mkApp("str.<", SBool, b.S, a.S), t)
		case token.GEQ:
			return scalar(mkApp("str.<=", SBool, b.S, a.S), t)
		}
		panic(unsupported("string operator " + op.String()))
	}
	var r *Term
	switch op {
	case token.ADD:
		r = Add(a.S, b.S)
	case token.SUB:
		r = Sub(a.S, b.S)
	case token.MUL:
		r = Mul(a.S, b.S)
	case token.QUO, token.REM:
		ord := 0
		if site != nil {
			ord = fr.ords[site]
		}
		fr.fc.oblige(st, fr, "safe", fmt.Sprintf("safe.div#%d", ord), Neq(b.S, mkInt(0)))
		q, rem, facts := divFacts(a.S, b.S, st.knows)
		st.assume(facts...)
		if op == token.QUO {
			r = q
		} else {
			r = rem
		}
	case token.LSS:
		return scalar(Lt(a.S, b.S), t)
	case token.LEQ:
		return scalar(Le(a.S, b.S), t)
	case token.GTR:
		return scalar(Gt(a.S, b.S), t)
	case token.GEQ:
		return scalar(Ge(a.S, b.S), t)
	case token.AND, token.OR, token.XOR, token.SHL, token.SHR, token.AND_NOT:
		r = bitop(op, a.S, b.S)
	default:
		panic(unsupported("binary operator " + op.String()))
	}
	res := scalar(r, t)
	fr.arith(st, res, site)
	return res
}

func toReal(t *Term) *Term {
	if t.Sort == SReal {
		return t
	}
	if t.Kind == KInt {
		return mkApp(t.Int.String()+".0", SReal)
	}
	return mkApp("to_real", SReal, t)
}

func bitop(op token.Token, a, b *Term) *Term {
	if op == token.SHL && b.Kind == KInt && b.Int.IsInt64() && b.Int.Int64() < 64 {
		return Mul(a, mkBig(new(big.Int).Lsh(big.NewInt(1), uint(b.Int.Int64()))))
	}
	if op == token.SHR && b.Kind == KInt && b.Int.IsInt64() && b.Int.Int64() < 64 {
		return EDiv(a, mkBig(new(big.Int).Lsh(big.NewInt(1), uint(b.Int.Int64()))))
	}
	if op == token.AND && b.Kind == KInt {
		// x & (2^k - 1) == x mod 2^k
		p := new(big.Int).Add(b.Int, big.NewInt(1))
		if p.Sign() > 0 && new(big.Int).And(p, b.Int).Sign() == 0 {
			return EMod(a, mkBig(p))
		}
	}
	return mkUF("bit."+op.String(), SInt, a, b)
}

// arith handles the machine-integer side of an arithmetic result: either an overflow obligation
// (flag overflow=check) or the recorded assumption that arithmetic is mathematical.
func (fr *frame) arith(st *State, v *Value, site ast.Node) {
	lo, hi, ok := intRange(v.T)
	if !ok || v.S.Kind == KInt {
		return
	}
	if fr.fc.contract != nil && fr.fc.contract.Flags["overflow"] == "check" {
		pos := ""
		if site != nil {
			p := fr.fc.reg.fset.Position(site.Pos())
			_ = p
		}
		fr.fc.ovfCount++
		fr.fc.oblige(st, fr, "safe", fmt.Sprintf("safe.ovf#%d%s", fr.fc.ovfCount, pos), And(Le(lo, v.S), Le(v.S, hi)))
		return
	}
	fr.fc.reg.assumptions["machine arithmetic treated as mathematical in "+fr.fc.name] = true
}

func (fr *frame) evalTypeAssert(st *State, x *ast.TypeAssertExpr) (*Value, *Term) {
	v := fr.eval(st, x.X)
	if x.Type == nil {
		panic(unsupported("type switch guard outside switch"))
	}
	t := fr.typeOf(x.Type)
	return fr.assertType(st, v, t)
}

// assertType returns (value as t, condition that the assertion succeeds).
func (fr *frame) assertType(st *State, v *Value, t types.Type) (*Value, *Term) {
	if v.K != VIface {
		panic(unsupported("type assertion on non-interface"))
	}
	if _, isIface := t.Underlying().(*types.Interface); isIface {
		// interface-to-interface: succeeds iff dynamic type implements t: uninterpreted over the tag,
		// with the facts go/types can decide: concrete types seen so far, and interface subsumption
		ti := t.Underlying().(*types.Interface)
		for id, ct := range typeTagTypes {
			if _, isI := ct.Underlying().(*types.Interface); isI {
				continue
			}
			st.assume(Eq(mkUF("implements:"+typeName(t), SBool, mkInt(id)), mkBool(types.Implements(ct, ti))))
		}
		for n, it := range seenIfaces {
			if n != typeName(t) && types.Implements(it, ti) {
				st.assume(Implies(mkUF("implements:"+n, SBool, v.Typ), mkUF("implements:"+typeName(t), SBool, v.Typ)))
			}
		}
		ok := And(Neq(v.Typ, mkInt(0)), mkUF("implements:"+typeName(t), SBool, v.Typ))
		return &Value{K: VIface, T: t, Typ: v.Typ, S: v.S}, ok
	}
	ok := Eq(v.Typ, typeTag(t))
	// the concrete type must implement every static interface type the value has passed through
	for n, it := range seenIfaces {
		if !types.Implements(t, it.Underlying().(*types.Interface)) {
			st.assume(Not(mkUF("implements:"+n, SBool, typeTag(t))))
		}
	}
	if s, isScalar := scalarSort(t); isScalar {
		switch s {
		case SInt:
			return scalar(v.S, t), ok
		case SString:
			return scalar(mkUF("unbox.String", SString, v.S), t), ok
		case SBool:
			return scalar(Neq(v.S, mkInt(0)), t), ok
		}
	}
	switch t.Underlying().(type) {
	case *types.Slice, *types.Struct:
		if isValueBoxType(t) {
			return unboxValue(t, v.S), ok
		}
		return st.loadObj("box<"+typeName(t)+">", t, v.S), ok
	}
	panic(unsupported("type assertion to " + typeName(t)))
}

func (fr *frame) evalCompositeLit(st *State, x *ast.CompositeLit, t types.Type) *Value {
	switch u := t.Underlying().(type) {
	case *types.Struct:
		v := zeroValue(t)
		v = &Value{K: VStruct, T: t, F: append([]*Value(nil), v.F...)}
		for i, el := range x.Elts {
			if kv, ok := el.(*ast.KeyValueExpr); ok {
				name := kv.Key.(*ast.Ident).Name
				for j := 0; j < u.NumFields(); j++ {
					if u.Field(j).Name() == name {
						v.F[j] = fr.coerce(st, fr.evalIn(st, kv.Value, u.Field(j).Type()), u.Field(j).Type())
					}
				}
			} else {
				v.F[i] = fr.coerce(st, fr.evalIn(st, el, u.Field(i).Type()), u.Field(i).Type())
			}
		}
		return v
	case *types.Slice:
		r := st.newRef("lit")
		n := int64(0)
		for _, el := range x.Elts {
			if _, ok := el.(*ast.KeyValueExpr); ok {
				panic(unsupported("keyed slice literal"))
			}
			ev := fr.coerce(st, fr.evalIn(st, el, u.Elem()), u.Elem())
			st.store(&lvalue{kind: lvElem, T: u.Elem(), ref: r, idx: mkInt(n), prefix: elemClass(u.Elem())}, ev)
			n++
		}
		return &Value{K: VSlice, T: t, Arr: r, Len: mkInt(n)}
	case *types.Map:
		r := st.newMap(u)
		for _, el := range x.Elts {
			kv := el.(*ast.KeyValueExpr)
			k := fr.eval(st, kv.Key)
			v := fr.coerce(st, fr.evalIn(st, kv.Value, u.Elem()), u.Elem())
			st.mapPut(u, r, keyTerm(k), v)
		}
		return scalar(r, t)
	case *types.Pointer:
		// elided &T in slice-of-pointer literals
		ev := fr.evalCompositeLit(st, x, u.Elem())
		r := st.newRef("new:" + shortTypeName(u.Elem()))
		st.storeObj(structClass(u.Elem()), r, ev)
		return scalar(r, t)
	}
	panic(unsupported("composite literal of " + typeName(t)))
}

// evalIn evaluates e where a value of type want is expected (handles elided literal types).
func (fr *frame) evalIn(st *State, e ast.Expr, want types.Type) *Value {
	if cl, ok := e.(*ast.CompositeLit); ok && cl.Type == nil {
		return fr.evalCompositeLit(st, cl, want)
	}
	return fr.eval(st, e)
}

// coerce converts v to type want (interface boxing, untyped nil).
func (fr *frame) coerce(st *State, v *Value, want types.Type) *Value {
	if want == nil {
		return v
	}
	if _, isIface := want.Underlying().(*types.Interface); isIface {
		if v.K == VSlice || v.K == VStruct {
			// composite values are boxed: the interface holds a reference to an immutable copy
			var box *Term
			if leaves, ok := scalarLeaves(v); ok {
				// a struct of scalar fields is comparable: its identity inside an interface is a function
				// of its field values (Go compares such interface values field by field)
				box = mkUF("mkbox<"+typeName(v.T)+">", SInt, leaves...)
				st.assume(Gt(box, mkInt(0)))
				ub := unboxValue(v.T, box)
				for i, f := range ub.F {
					st.assume(Eq(f.S, leaves[i]))
				}
				return &Value{K: VIface, T: want, Typ: typeTag(v.T), S: box}
			}
			box = st.newRef("box")
			st.storeObj("box<"+typeName(v.T)+">", box, v)
			return &Value{K: VIface, T: want, Typ: typeTag(v.T), S: box}
		}
		if v.K != VIface {
			iv := toIface(v)
			iv.T = want
			// a typed nil pointer inside an interface is non-nil interface: tag already non-zero
			return iv
		}
		if v.T != want {
			// a non-nil value of static interface type A has a dynamic type implementing A
			if v.T != nil {
				if _, isI := v.T.Underlying().(*types.Interface); isI {
					if _, named := v.T.(*types.Named); named {
						seenIfaces[typeName(v.T)] = v.T
						st.assume(Implies(Neq(v.Typ, mkInt(0)), mkUF("implements:"+typeName(v.T), SBool, v.Typ)))
						fr.fc.ifaceFactsPending = true
					}
				}
			}
			c := *v
			c.T = want
			return &c
		}
		return v
	}
	if v.K == VScalar && v.T != nil {
		if b, ok := v.T.(*types.Basic); ok && b.Kind() == types.UntypedNil {
			return zeroValue(want)
		}
	}
	if v.K == VFunc {
		return v
	}
	if v.T != want && v.K != VTuple && v.K != VNone {
		c := *v
		c.T = want
		return &c
	}
	return v
}

// goEq: Go's == including comparisons against the nil literal.
func goEq(a, b *Value) *Term {
	isNil := func(v *Value) bool {
		if v.K != VScalar || v.T == nil {
			return false
		}
		bb, ok := v.T.(*types.Basic)
		return ok && bb.Kind() == types.UntypedNil
	}
	if isNil(a) || isNil(b) {
		return specEq(a, b)
	}
	return valueEq(a, b)
}

// scalarLeaves returns the field values of a struct whose fields are all scalars (in field order).
func scalarLeaves(v *Value) ([]*Term, bool) {
	if v.K != VStruct || isOpaqueStruct(v.T) || !isValueBoxType(v.T) {
		return nil, false
	}
	var out []*Term
	for _, f := range v.F {
		if f.K != VScalar || f.S == nil || f.SpecKind != "" {
			return nil, false
		}
		out = append(out, f.S)
	}
	return out, len(out) > 0
}

// isValueBoxType: struct types whose fields are all scalars are held in interfaces by value identity
// (mkbox<T>(fields)); their fields are read back through selector functions, not through the heap.
func isValueBoxType(t types.Type) bool {
	st, ok := t.Underlying().(*types.Struct)
	if !ok || isOpaqueStruct(t) || st.NumFields() == 0 {
		return false
	}
	for i := 0; i < st.NumFields(); i++ {
		if _, ok := scalarSort(st.Field(i).Type()); !ok {
			return false
		}
	}
	return true
}

func unboxValue(t types.Type, box *Term) *Value {
	st := t.Underlying().(*types.Struct)
	v := &Value{K: VStruct, T: t}
	for i := 0; i < st.NumFields(); i++ {
		srt, _ := scalarSort(st.Field(i).Type())
		v.F = append(v.F, scalar(mkUF("sel<"+typeName(t)+">."+st.Field(i).Name(), srt, box), st.Field(i).Type()))
	}
	return v
}
