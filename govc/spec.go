package main

// Evaluation of contract-language expressions over a symbolic state.

import (
	"fmt"
	"go/types"
	"math/big"
	"strings"

	"golang.org/x/tools/go/packages"
)

type packagesPackage = packages.Package

type SpecEnv struct {
	reg  *Registry
	pkg  *packages.Package
	st   *State
	old  *SpecEnv
	vars map[string]*Value
	fr   *frame // for resolving function locals by name (loop invariants); may be nil
	self *Value
	predDepth int
	facts *State // where definitional facts (division witnesses) are recorded; defaults to st
}

func (env *SpecEnv) sink() *State {
	if env.facts != nil {
		return env.facts
	}
	return env.st
}

func (env *SpecEnv) with(name string, v *Value) *SpecEnv {
	n := *env
	n.vars = make(map[string]*Value, len(env.vars)+1)
	for k, x := range env.vars {
		n.vars[k] = x
	}
	n.vars[name] = v
	if env.old != nil {
		o := env.old.with(name, v)
		n.old = o
	}
	return &n
}

func specFail(f string, a ...interface{}) {
	panic(specError{fmt.Sprintf(f, a...)})
}

func (env *SpecEnv) evalBool(e *SExpr) *Term {
	v := env.eval(e)
	if v.K != VScalar || v.S.Sort != SBool {
		specFail("expression %s is not boolean", e)
	}
	return v.S
}

var untypedNil = &Value{K: VScalar, T: types.Typ[types.UntypedNil], S: mkInt(0)}

func (env *SpecEnv) eval(e *SExpr) *Value {
	switch e.Kind {
	case SIntLit:
		n, ok := new(big.Int).SetString(e.Name, 10)
		if !ok {
			specFail("bad integer %s", e.Name)
		}
		return scalar(mkBig(n), types.Typ[types.UntypedInt])
	case SStrLit:
		return scalar(mkStr(e.Name), types.Typ[types.String])
	case SIdent:
		return env.evalIdent(e.Name)
	case SUnary:
		x := env.eval(e.X)
		switch e.Op {
		case "!":
			return scalar(Not(x.S), types.Typ[types.Bool])
		case "-":
			return scalar(Neg(x.S), x.T)
		case "*":
			// *p: the cell a pointer to a non-struct value (a named map, an int, ...) points to
			if x.Alias != nil {
				return env.st.load(x.Alias) // &local: the pointer is an alias of that variable
			}
			pt, ok := x.T.Underlying().(*types.Pointer)
			if !ok {
				specFail("* of a non-pointer")
			}
			if _, isStruct := pt.Elem().Underlying().(*types.Struct); isStruct {
				c := *x
				return &c // pointers to structs are used through their fields
			}
			return env.st.load(&lvalue{kind: lvHeap, T: pt.Elem(), ref: x.S, prefix: "box<" + typeName(pt.Elem()) + ">"})
		}
	case SBinary:
		return env.evalBinary(e)
	case SCond:
		c := env.evalBool(e.X)
		return valueIte(c, env.eval(e.Y), env.eval(e.Z))
	case SLet:
		return env.with(e.Name, env.eval(e.X)).eval(e.Y)
	case SField:
		// package-qualified name?
		if e.X.Kind == SIdent {
			if _, isVar := env.lookupVar(e.X.Name); !isVar {
				if v := env.qualified(e.X.Name, e.Name); v != nil {
					return v
				}
			}
		}
		x := env.eval(e.X)
		return env.field(x, e.Name)
	case SIndex:
		x := env.eval(e.X)
		i := env.eval(e.Y)
		return env.index(x, i)
	case SSlice:
		x := env.eval(e.X)
		var lo, hi *Term
		if e.Y != nil {
			lo = env.eval(e.Y).S
		} else {
			lo = mkInt(0)
		}
		if x.K == VScalar && x.S.Sort == SString {
			if e.Z != nil {
				hi = env.eval(e.Z).S
			} else {
				hi = StrLen(x.S)
			}
			return scalar(StrSubstr(x.S, lo, Sub(hi, lo)), x.T)
		}
		specFail("slicing of non-string in spec: %s", e)
	case SQuant:
		if e.Op == "lambda" {
			return env.evalLambda(e)
		}
		n := env
		var bound []*Term
		var guards []*Term
		for _, b := range e.Binders {
			bn := freshName(b.Name)
			v := env.reg.specValue(env.pkg, b.Type, func(path string, s *Sort) *Term {
				t := mkBVar(bn+path, s)
				bound = append(bound, t)
				return t
			})
			// type-derived guards (unsigned >= 0 etc. are not assumed for bound ints; refs >= 0 is harmless)
			n = n.with(b.Name, v)
		}
		sinks := []*State{env.sink(), env.st}
		if env.old != nil {
			sinks = append(sinks, env.old.st)
		}
		marks := make([]int, len(sinks))
		for i, s := range sinks {
			marks[i] = len(s.openFacts)
		}
		body := n.evalBool(e.X)
		_ = guards
		// facts recorded while evaluating the body that mention the bound variables (type ranges of
		// loaded values etc.) hold for every instance: they guard the body
		isBound := map[string]bool{}
		for _, b := range bound {
			isBound[b.Op] = true
		}
		var facts []*Term
		seenFact := map[int]bool{}
		for i, s := range sinks {
			var keep []*Term
			keep = append(keep, s.openFacts[:marks[i]]...)
			for _, f := range s.openFacts[marks[i]:] {
				mine := false
				for _, o := range f.open {
					if isBound[o] {
						mine = true
					}
				}
				if mine {
					if !seenFact[f.id] {
						seenFact[f.id] = true
						facts = append(facts, f)
					}
				} else {
					keep = append(keep, f)
				}
			}
			s.openFacts = keep
		}
		// These facts are type invariants of memory cells (integer ranges, allocatedness). They are
		// dropped rather than attached: as assumptions they are not needed for soundness, and goals
		// without them are only stronger.
		_ = facts
		if e.Op == "forall" {
			return scalar(Forall(bound, body), types.Typ[types.Bool])
		}
		return scalar(Exists(bound, body), types.Typ[types.Bool])
	case SCall:
		return env.evalCall(e)
	}
	specFail("cannot evaluate %s", e)
	return nil
}

// evalLambda: `lambda k K :: body` is the total map k -> body, introduced as an array constant
// named after the (hash-consed) body and defined by a quantified fact.
func (env *SpecEnv) evalLambda(e *SExpr) *Value {
	if len(e.Binders) != 1 {
		specFail("lambda takes exactly one binder")
	}
	b := e.Binders[0]
	ks := env.reg.specSortOf(env.pkg, b.Type)
	bv := mkBVar("lam$"+b.Name, ks)
	kt := env.reg.resolveSTypeOrNil(env.pkg, b.Type)
	body := env.with(b.Name, &Value{K: VScalar, T: kt, S: bv}).eval(e.X)
	if body.K != VScalar {
		specFail("lambda body must be scalar")
	}
	arr := mkVar(fmt.Sprintf("lam!%d", body.S.id), SArray(ks, body.S.Sort))
	env.sink().assume(Forall([]*Term{bv}, Eq(Select(arr, bv), body.S)))
	return &Value{K: VScalar, SpecKind: "mmap", S: arr, T: body.T}
}

func (env *SpecEnv) lookupVar(name string) (*Value, bool) {
	if v, ok := env.vars[name]; ok {
		return v, true
	}
	if env.fr != nil {
		// function locals by name: choose the bound variable declared last
		// (variables of the function the clause belongs to win over same-named locals that inlined callees
		// left bound in the state)
		var best *types.Var
		bestIn := false
		var sc *types.Scope
		if env.fr.fn != nil {
			sc = env.fr.fn.Scope()
		}
		for o := range env.st.vars {
			if v, ok := o.(*types.Var); ok && v.Name() == name {
				in := sc != nil && v.Pkg() == env.fr.fn.Pkg() && sc.Pos() <= v.Pos() && v.Pos() < sc.End()
				switch {
				case best == nil, in && !bestIn:
					best, bestIn = v, in
				case in == bestIn && v.Pos() > best.Pos():
					best = v
				}
			}
		}
		if best != nil {
			return env.st.vars[best], true
		}
		if rv := env.fr.fc.rebind[name]; rv != nil {
			if v, ok := env.st.vars[rv]; ok {
				return v, true
			}
		}
	}
	return nil, false
}

func (env *SpecEnv) evalIdent(name string) *Value {
	switch name {
	case "true":
		return scalar(TTrue, types.Typ[types.Bool])
	case "false":
		return scalar(TFalse, types.Typ[types.Bool])
	case "nil":
		return untypedNil
	}
	if v, ok := env.lookupVar(name); ok {
		return v
	}
	// ghost variable
	if env.pkg != nil {
		if g, ok := env.reg.gvars[env.pkg.PkgPath+"."+name]; ok {
			return env.ghostVar(env.pkg.PkgPath, g)
		}
	}
	for k, g := range env.reg.gvars {
		if strings.HasSuffix(k, "."+name) {
			return env.ghostVar(strings.TrimSuffix(k, "."+name), g)
		}
	}
	if env.pkg != nil {
		if o := env.pkg.Types.Scope().Lookup(name); o != nil {
			return env.objectValue(o)
		}
		// zero-arg predicate used as a constant
		if p, ok := env.reg.preds[env.pkg.PkgPath+"."+name]; ok && len(p.Params) == 0 {
			return env.callPred(env.pkg.PkgPath, p, nil)
		}
	}
	specFail("unknown identifier %q", name)
	return nil
}

func (env *SpecEnv) ghostVar(pkgPath string, g GhostVar) *Value {
	cls := "ghost:" + pkgPath + "." + g.Name
	return env.reg.specValue(env.reg.pkgs[pkgPath], g.SType, func(path string, s *Sort) *Term {
		noteClass(cls+path, s, true)
		return env.st.globalTerm(cls+path, s)
	})
}

func (env *SpecEnv) objectValue(o types.Object) *Value {
	switch x := o.(type) {
	case *types.Const:
		return constValue(types.TypeAndValue{Type: x.Type(), Value: x.Val()})
	case *types.Var:
		return env.st.load(globalLV(x))
	case *types.Func:
		return &Value{K: VFunc, T: x.Type(), Fn: &FuncVal{Fn: x}}
	}
	specFail("object %s cannot be used in a spec", o.Name())
	return nil
}

func (env *SpecEnv) qualified(pkgName, name string) *Value {
	// an import alias of the package under contract (e.g. stdcontext "context") wins
	if env.pkg != nil {
		for _, f := range env.pkg.Syntax {
			for _, im := range f.Imports {
				if im.Name == nil || im.Name.Name != pkgName {
					continue
				}
				path := strings.Trim(im.Path.Value, "\"")
				if p := env.reg.pkgs[path]; p != nil && p.Types != nil {
					if o := p.Types.Scope().Lookup(name); o != nil {
						return env.objectValue(o)
					}
				}
			}
		}
	}
	for _, p := range env.reg.pkgs {
		if p.Name != pkgName || p.Types == nil {
			continue
		}
		if env.pkg != nil {
			if _, ok := env.pkg.Imports[p.PkgPath]; !ok {
				continue
			}
		}
		if o := p.Types.Scope().Lookup(name); o != nil {
			return env.objectValue(o)
		}
	}
	for _, p := range env.reg.pkgs {
		if p.Name == pkgName && p.Types != nil {
			if o := p.Types.Scope().Lookup(name); o != nil {
				return env.objectValue(o)
			}
		}
	}
	return nil
}

// field selects a (possibly promoted or ghost) field of x.
func (env *SpecEnv) field(x *Value, name string) *Value {
	if x.T == nil {
		specFail("field %s of untyped value", name)
	}
	t := x.T
	// ghost field?
	st := t
	if p, ok := st.Underlying().(*types.Pointer); ok {
		st = p.Elem()
	}
	if n, ok := st.(*types.Named); ok && n.Obj().Pkg() != nil {
		key := n.Obj().Pkg().Path() + "." + n.Obj().Name() + "." + name
		if g, ok := env.reg.gfields[key]; ok {
			if x.K != VScalar && x.K != VIface {
				specFail("ghost field %s needs a pointer or interface receiver", name)
			}
			cls := "ghostf:" + key
			return env.reg.specValue(env.reg.pkgs[n.Obj().Pkg().Path()], g.SType, func(path string, s *Sort) *Term {
				return env.st.loadLeaf(cls+path, s, x.S)
			})
		}
	}
	var pkg *types.Package
	if env.pkg != nil {
		pkg = env.pkg.Types
	}
	if n, ok := st.(*types.Named); ok && n.Obj().Pkg() != nil {
		pkg = n.Obj().Pkg() // allow unexported fields of the type's own package
	}
	obj, path, _ := types.LookupFieldOrMethod(t, true, pkg, name)
	if obj == nil {
		specFail("type %s has no field %s", typeName(t), name)
	}
	if _, isVar := obj.(*types.Var); !isVar {
		specFail("%s.%s is not a field", typeName(t), name)
	}
	return selectPath(env.st, x, t, path)
}

// selectPath follows a field index path from value v of type t, reading the heap through pointers.
func selectPath(st *State, v *Value, t types.Type, path []int) *Value {
	var lv *lvalue
	if v.Alias != nil {
		lv = v.Alias
		if pt, ok := t.Underlying().(*types.Pointer); ok {
			t = pt.Elem()
		}
		v = nil
	}
	for _, idx := range path {
		if pt, isPtr := t.Underlying().(*types.Pointer); isPtr {
			if v == nil {
				v = st.load(lv)
			}
			if v.Alias != nil {
				lv = v.Alias
			} else {
				lv = &lvalue{kind: lvHeap, T: pt.Elem(), ref: v.S, prefix: structClass(pt.Elem())}
			}
			v = nil
			t = pt.Elem()
		}
		stt, ok := t.Underlying().(*types.Struct)
		if !ok {
			specFail("selection on non-struct %s", typeName(t))
		}
		if lv != nil {
			lv = lv.field(stt, idx)
		} else {
			v = v.F[idx]
		}
		t = stt.Field(idx).Type()
	}
	if lv != nil {
		return st.load(lv)
	}
	return v
}

func (env *SpecEnv) index(x, i *Value) *Value {
	switch {
	case x.SpecKind == "mmap" || x.SpecKind == "set":
		return env.wrapElem(x, Select(x.S, i.S))
	case x.SpecKind == "seq":
		return env.wrapElem(x, Select(x.S, i.S))
	case x.K == VSlice:
		var et types.Type
		switch u := x.T.Underlying().(type) {
		case *types.Slice:
			et = u.Elem()
		case *types.Array:
			et = u.Elem()
		}
		return env.st.load(&lvalue{kind: lvElem, T: et, ref: x.Arr, idx: i.S, prefix: elemClass(et)})
	case x.K == VScalar && x.S.Sort == SString:
		return scalar(mkApp("str.to_code", SInt, StrAt(x.S, i.S)), types.Typ[types.Uint8])
	case x.K == VScalar && x.T != nil:
		if m, ok := x.T.Underlying().(*types.Map); ok {
			return env.st.mapGet(m, x.S, keyTerm(i))
		}
	}
	specFail("cannot index %s", x)
	return nil
}

func (env *SpecEnv) wrapElem(x *Value, t *Term) *Value {
	if t.Sort.Name == "Array" {
		// nested math map
		return &Value{K: VScalar, SpecKind: "mmap", S: t}
	}
	return scalar(t, x.T)
}

func isIntLike(v *Value) bool { return v.K == VScalar && v.S != nil && v.S.Sort == SInt }

func (env *SpecEnv) evalBinary(e *SExpr) *Value {
	tb := types.Typ[types.Bool]
	switch e.Op {
	case "&&":
		return scalar(And(env.evalBool(e.X), env.evalBool(e.Y)), tb)
	case "||":
		return scalar(Or(env.evalBool(e.X), env.evalBool(e.Y)), tb)
	case "==>":
		return scalar(Implies(env.evalBool(e.X), env.evalBool(e.Y)), tb)
	case "<==>":
		return scalar(Iff(env.evalBool(e.X), env.evalBool(e.Y)), tb)
	case "in":
		k := env.eval(e.X)
		m := env.eval(e.Y)
		switch {
		case m.SpecKind == "set":
			return scalar(Select(m.S, k.S), tb)
		case m.K == VScalar && m.T != nil:
			if mt, ok := m.T.Underlying().(*types.Map); ok {
				return scalar(And(Neq(m.S, mkInt(0)), env.st.mapHas(mt, m.S, keyTerm(k))), tb)
			}
		}
		specFail("'in' needs a map or set: %s", e)
	}
	a := env.eval(e.X)
	b := env.eval(e.Y)
	switch e.Op {
	case "==":
		return scalar(specEq(a, b), tb)
	case "!=":
		return scalar(Not(specEq(a, b)), tb)
	}
	if a.K != VScalar || b.K != VScalar {
		specFail("operator %s on composite values: %s", e.Op, e)
	}
	if a.S.Sort == SString {
		switch e.Op {
		case "+", "++":
			return scalar(StrCat(a.S, b.S), a.T)
		}
		specFail("string operator %s", e.Op)
	}
	if a.S.Sort == SReal || b.S.Sort == SReal {
		ra, rb := toReal(a.S), toReal(b.S)
		switch e.Op {
		case "+", "-", "*", "/":
			return scalar(mkApp(e.Op, SReal, ra, rb), a.T)
		case "<", "<=", ">", ">=":
			return scalar(mkApp(e.Op, SBool, ra, rb), tb)
		}
	}
	rt := a.T
	if rt == nil || isUntyped(rt) {
		rt = b.T
	}
	switch e.Op {
	case "+":
		return scalar(Add(a.S, b.S), rt)
	case "-":
		return scalar(Sub(a.S, b.S), rt)
	case "*":
		return scalar(Mul(a.S, b.S), rt)
	case "/", "%":
		q, rem, facts := divFacts(a.S, b.S, env.sink().knows)
		env.sink().assume(facts...)
		if e.Op == "/" {
			return scalar(q, rt)
		}
		return scalar(rem, rt)
	case "<":
		return scalar(Lt(a.S, b.S), tb)
	case "<=":
		return scalar(Le(a.S, b.S), tb)
	case ">":
		return scalar(Gt(a.S, b.S), tb)
	case ">=":
		return scalar(Ge(a.S, b.S), tb)
	}
	specFail("operator %s not supported in specs", e.Op)
	return nil
}

func isUntyped(t types.Type) bool {
	b, ok := t.(*types.Basic)
	return ok && b.Info()&types.IsUntyped != 0
}

// specEq: equality with nil handling.
func specEq(a, b *Value) *Term {
	isNil := func(v *Value) bool {
		bb, ok := v.T.(*types.Basic)
		return ok && bb.Kind() == types.UntypedNil
	}
	if isNil(b) {
		a, b = b, a
	}
	if isNil(a) {
		switch b.K {
		case VScalar:
			return Eq(b.S, mkInt(0))
		case VSlice:
			return Eq(b.Arr, mkInt(0))
		case VIface:
			return Eq(b.Typ, mkInt(0))
		case VFunc:
			return TFalse
		}
	}
	if a.K == VScalar && b.K == VScalar && a.S.Sort != b.S.Sort {
		specFail("comparison of different sorts: %s vs %s", a.S.Sort, b.S.Sort)
	}
	return valueEq(a, b)
}

func (env *SpecEnv) evalCall(e *SExpr) *Value {
	tb := types.Typ[types.Bool]
	ti := types.Typ[types.Int]
	if e.X.Kind == SIdent {
		name := e.X.Name
		arg := func(i int) *Value { return env.eval(e.Args[i]) }
		switch name {
		case "old":
			if env.old == nil {
				return env.eval(e.Args[0])
			}
			o := *env.old
			o.facts = env.sink()
			return o.eval(e.Args[0])
		case "len":
			x := arg(0)
			switch {
			case x.SpecKind == "seq":
				return scalar(x.Len, ti)
			case x.K == VSlice:
				return scalar(x.Len, ti)
			case x.K == VScalar && x.S.Sort == SString:
				return scalar(StrLen(x.S), ti)
			case x.K == VScalar && x.T != nil:
				if m, ok := x.T.Underlying().(*types.Map); ok {
					return scalar(Ite(Eq(x.S, mkInt(0)), mkInt(0), env.st.mapCard(m, x.S)), ti)
				}
			}
			specFail("len of %s", e.Args[0])
		case "cap":
			x := arg(0)
			if x.K != VSlice {
				specFail("cap of non-slice")
			}
			return scalar(x.capTerm(), ti)
		case "fresh":
			x := arg(0)
			pre := env.st
			if env.old != nil {
				pre = env.old.st
			}
			ref := x.S
			if x.K == VSlice {
				ref = x.Arr
			}
			return scalar(And(Neq(ref, mkInt(0)), Not(Select(pre.allocArr(), ref))), tb)
		case "allocated":
			x := arg(0)
			return scalar(Select(env.st.allocArr(), x.S), tb)
		case "min":
			a, b := arg(0), arg(1)
			return scalar(Ite(Le(a.S, b.S), a.S, b.S), a.T)
		case "max":
			a, b := arg(0), arg(1)
			return scalar(Ite(Ge(a.S, b.S), a.S, b.S), a.T)
		case "abs":
			a := arg(0)
			return scalar(Ite(Ge(a.S, mkInt(0)), a.S, Neg(a.S)), a.T)
		case "clamp":
			x, lo, hi := arg(0), arg(1), arg(2)
			return scalar(Ite(Lt(x.S, lo.S), lo.S, Ite(Gt(x.S, hi.S), hi.S, x.S)), x.T)
		case "ediv":
			return scalar(EDiv(arg(0).S, arg(1).S), ti)
		case "emod":
			return scalar(EMod(arg(0).S, arg(1).S), ti)
		case "pow2":
			a := arg(0)
			if a.S.Kind != KInt || !a.S.Int.IsInt64() {
				specFail("pow2 needs a literal")
			}
			return scalar(mkBig(new(big.Int).Lsh(big.NewInt(1), uint(a.S.Int.Int64()))), ti)
		case "hasPrefix":
			return scalar(StrPrefixOf(arg(1).S, arg(0).S), tb)
		case "hasSuffix":
			return scalar(StrSuffixOf(arg(1).S, arg(0).S), tb)
		case "contains":
			return scalar(StrContains(arg(0).S, arg(1).S), tb)
		case "substr":
			return scalar(StrSubstr(arg(0).S, arg(1).S, arg(2).S), types.Typ[types.String])
		case "typeIs":
			// typeIs(x, "*T") / typeIs(x, "T"): dynamic type of interface x is the package's type T
			x := arg(0)
			if x.K != VIface || e.Args[1].Kind != SStrLit {
				specFail("typeIs(iface, \"type name\")")
			}
			tn := e.Args[1].Name
			ptr := strings.HasPrefix(tn, "*")
			tn = strings.TrimPrefix(tn, "*")
			var ty types.Type
			if i := strings.LastIndex(tn, "."); i >= 0 {
				ty = env.reg.resolveSType(env.pkg, &SType{Kind: "name", Pkg: tn[:i], Name: tn[i+1:]})
			} else {
				ty = env.reg.resolveSType(env.pkg, &SType{Kind: "name", Name: tn})
			}
			if ty == nil {
				specFail("typeIs: unknown type %s", tn)
			}
			if ptr {
				ty = types.NewPointer(ty)
			}
			return scalar(Eq(x.Typ, typeTag(ty)), tb)
		case "as":
			// as(x, "*T"): the pointer held by interface x, typed as *T (meaningful when typeIs(x, "*T"))
			x := arg(0)
			if x.K != VIface || e.Args[1].Kind != SStrLit {
				specFail("as(iface, \"*T\")")
			}
			tn := strings.TrimPrefix(e.Args[1].Name, "*")
			var ty types.Type
			if i := strings.LastIndex(tn, "."); i >= 0 {
				ty = env.reg.resolveSType(env.pkg, &SType{Kind: "name", Pkg: tn[:i], Name: tn[i+1:]})
			} else {
				ty = env.reg.resolveSType(env.pkg, &SType{Kind: "name", Name: tn})
			}
			if ty == nil {
				specFail("as: unknown type %s", tn)
			}
			if !strings.HasPrefix(e.Args[1].Name, "*") {
				// as(x, "T") for a boxed composite value: the immutable copy held by the interface
				if _, isScalar := scalarSort(ty); !isScalar {
					if isValueBoxType(ty) {
						return unboxValue(ty, x.S)
					}
					return env.st.loadObj("box<"+typeName(ty)+">", ty, x.S)
				}
			}
			return scalar(x.S, types.NewPointer(ty))
		case "fieldContents":
			// fieldContents(s, "f"): the map index -> s[index].f for a slice of structs (scalar field f)
			x := arg(0)
			if x.K != VSlice || e.Args[1].Kind != SStrLit {
				specFail("fieldContents(slice, \"field\")")
			}
			et := x.T.Underlying().(*types.Slice).Elem()
			stt, ok := et.Underlying().(*types.Struct)
			if !ok {
				specFail("fieldContents needs a slice of structs")
			}
			for i := 0; i < stt.NumFields(); i++ {
				if stt.Field(i).Name() == e.Args[1].Name {
					es, ok := scalarSort(stt.Field(i).Type())
					if !ok {
						specFail("fieldContents needs a scalar field")
					}
					cls := elemClass(et) + "." + stt.Field(i).Name()
					noteClass(cls, SArray(SInt, es), false)
					return &Value{K: VScalar, SpecKind: "mmap", T: stt.Field(i).Type(), S: Select(env.st.heapArr(cls, SArray(SInt, es)), x.Arr)}
				}
			}
			specFail("fieldContents: no field %s", e.Args[1].Name)
		case "domOf", "valsOf":
			// the key set / value map of a Go map as mathematical objects (nil map: empty)
			x := arg(0)
			m, ok := x.T.Underlying().(*types.Map)
			if x.T == nil || !ok {
				specFail("%s needs a Go map", name)
			}
			ks := keySort(m)
			if name == "domOf" {
				d := Ite(Eq(x.S, mkInt(0)), ConstArray(SArray(ks, SBool), TFalse), env.st.mapDom(m, x.S))
				return &Value{K: VScalar, SpecKind: "set", T: types.Typ[types.Bool], S: d}
			}
			es, ok := scalarSort(m.Elem())
			if !ok {
				specFail("valsOf needs scalar map values")
			}
			return &Value{K: VScalar, SpecKind: "mmap", T: m.Elem(), S: env.st.loadLeaf(mapClass(m)+"#val", SArray(ks, es), x.S)}
		case "zeros":
			return &Value{K: VScalar, SpecKind: "mmap", T: types.Typ[types.Int], S: ConstArray(SArray(SInt, SInt), mkInt(0))}
		case "addr":
			// addr(x.f): the address of an embedded struct / field location (matches Go's &x.f)
			lv := env.specLV(e.Args[0])
			if lv == nil {
				specFail("addr needs a field location")
			}
			return &Value{K: VScalar, T: types.NewPointer(lv.T), S: aliasAddr(env.sink(), lv), Alias: lv}
		case "onceDone":
			// onceDone(x.once): whether Do has already run on that sync.Once field
			lv := env.specLV(e.Args[0])
			if lv == nil {
				specFail("onceDone needs a field of type sync.Once")
			}
			return scalar(env.st.loadLeaf(lv.prefix+"#once", SBool, lv.ref), tb)
		case "ptr":
			// ptr(r, "*T"): the integer reference r viewed as a pointer to T
			x := arg(0)
			if e.Args[1].Kind != SStrLit {
				specFail("ptr(ref, \"*T\")")
			}
			tn := strings.TrimPrefix(e.Args[1].Name, "*")
			var ty types.Type
			if i := strings.LastIndex(tn, "."); i >= 0 {
				ty = env.reg.resolveSType(env.pkg, &SType{Kind: "name", Pkg: tn[:i], Name: tn[i+1:]})
			} else {
				ty = env.reg.resolveSType(env.pkg, &SType{Kind: "name", Name: tn})
			}
			if ty == nil {
				specFail("ptr: unknown type %s", tn)
			}
			return scalar(x.S, types.NewPointer(ty))
		case "contents":
			// contents(s): the element map of slice s (index -> element), scalar element types only
			x := arg(0)
			if x.K != VSlice {
				specFail("contents() needs a slice")
			}
			et := x.T.Underlying().(*types.Slice).Elem()
			es, ok := scalarSort(et)
			if !ok {
				specFail("contents() needs scalar elements")
			}
			cls := elemClass(et)
			noteClass(cls, SArray(SInt, es), false)
			return &Value{K: VScalar, SpecKind: "mmap", T: et, S: Select(env.st.heapArr(cls, SArray(SInt, es)), x.Arr)}
		case "bytes":
			return &Value{K: VScalar, SpecKind: "mmap", T: types.Typ[types.Uint8], S: mkUF("bytesOf", SArray(SInt, SInt), arg(0).S)}
		case "str":
			// str(b): the string a []byte converts to (what Go's string(b) yields)
			x := arg(0)
			if x.K != VSlice {
				specFail("str() needs a byte slice")
			}
			cls := elemClass(x.T.Underlying().(*types.Slice).Elem())
			as := SArray(SInt, SInt)
			noteClass(cls, as, false)
			return scalar(mkUF("stringOf", SString, Select(env.st.heapArr(cls, as), x.Arr), x.Len), types.Typ[types.String])
		case "ifaceVal":
			x := arg(0)
			return scalar(x.S, nil)
		case "ifaceTyp":
			// ifaceTyp(x): the dynamic type tag of interface x (0 for a nil interface)
			x := arg(0)
			if x.K != VIface {
				specFail("ifaceTyp(iface)")
			}
			return scalar(x.Typ, types.Typ[types.Int])
		case "typeTag", "boxed":
			// typeTag("T") / typeTag("*T"): the tag interfaces carry for dynamic type T
			// boxed("T", f1, ..., fn): the value identity of a struct T{f1..fn} (all fields scalar) held in an interface
			if len(e.Args) == 0 || e.Args[0].Kind != SStrLit {
				specFail("%s(\"type name\", ...)", name)
			}
			tn := e.Args[0].Name
			isSlice := strings.HasPrefix(tn, "[]") // typeTag("[]T"): a slice type
			tn = strings.TrimPrefix(tn, "[]")
			isPtr := strings.HasPrefix(tn, "*")
			tn = strings.TrimPrefix(tn, "*")
			var ty types.Type
			if i := strings.LastIndex(tn, "."); i >= 0 {
				ty = env.reg.resolveSType(env.pkg, &SType{Kind: "name", Pkg: tn[:i], Name: tn[i+1:]})
			} else {
				ty = env.reg.resolveSType(env.pkg, &SType{Kind: "name", Name: tn})
			}
			if ty == nil {
				specFail("%s: unknown type %s", name, tn)
			}
			if isPtr {
				ty = types.NewPointer(ty)
			}
			if isSlice {
				ty = types.NewSlice(ty)
			}
			if name == "typeTag" {
				return scalar(typeTag(ty), types.Typ[types.Int])
			}
			var leaves []*Term
			for i := 1; i < len(e.Args); i++ {
				leaves = append(leaves, arg(i).S)
			}
			if bt, ok := ty.Underlying().(*types.Basic); ok && bt.Info()&types.IsString != 0 && len(leaves) == 1 {
				// boxed("string", s): the value a string has inside an interface
				return scalar(mkUF("box.String", SInt, leaves[0]), nil)
			}
			return scalar(mkUF("mkbox<"+typeName(ty)+">", SInt, leaves...), nil)
		case "ref":
			x := arg(0)
			if x.K == VSlice {
				return scalar(x.Arr, nil)
			}
			return scalar(x.S, nil)
		case "store":
			m, k, v := arg(0), arg(1), arg(2)
			return &Value{K: VScalar, SpecKind: m.SpecKind, T: m.T, S: Store(m.S, k.S, v.S), Len: m.Len}
		case "int":
			return scalar(arg(0).S, ti)
		case "decimal":
			// decimal(n): the text fmt.Sprintf("%d", n) produces
			return scalar(mkUF("fmt.decimal", SString, arg(0).S), types.Typ[types.String])
		}
		// predicate / uninterpreted function
		if env.pkg != nil {
			if p, ok := env.reg.preds[env.pkg.PkgPath+"."+name]; ok {
				var args []*Value
				for i := range e.Args {
					args = append(args, arg(i))
				}
				return env.callPred(env.pkg.PkgPath, p, args)
			}
		}
		for k, p := range env.reg.preds {
			if strings.HasSuffix(k, "."+name) {
				var args []*Value
				for i := range e.Args {
					args = append(args, arg(i))
				}
				return env.callPred(strings.TrimSuffix(k, "."+name), p, args)
			}
		}
		specFail("unknown function %q in spec", name)
	}
	// pkg.pred(...)
	if e.X.Kind == SField && e.X.X.Kind == SIdent {
		for path, p := range env.reg.pkgs {
			if p.Name == e.X.X.Name {
				if pd, ok := env.reg.preds[path+"."+e.X.Name]; ok {
					var args []*Value
					for _, a := range e.Args {
						args = append(args, env.eval(a))
					}
					return env.callPred(path, pd, args)
				}
			}
		}
	}
	specFail("cannot call %s in a spec", e.X)
	return nil
}

func (env *SpecEnv) callPred(pkgPath string, p *PredDecl, args []*Value) *Value {
	if len(args) != len(p.Params) {
		specFail("predicate %s expects %d arguments", p.Name, len(p.Params))
	}
	ppkg := env.reg.pkgs[pkgPath]
	if p.Body == nil {
		// uninterpreted function
		var ts []*Term
		for _, a := range args {
			if a.K == VSlice {
				ts = append(ts, a.Arr, a.Len)
			} else if a.K == VIface {
				ts = append(ts, a.Typ, a.S)
			} else {
				ts = append(ts, a.S)
			}
		}
		rs := env.reg.specSortOf(ppkg, p.Result)
		return scalar(mkUF("uf:"+pkgPath+"."+p.Name, rs, ts...), env.reg.resolveSType(ppkg, p.Result))
	}
	if env.predDepth > 40 {
		specFail("predicate expansion too deep (recursive predicate %s?)", p.Name)
	}
	n := &SpecEnv{reg: env.reg, pkg: ppkg, st: env.st, vars: map[string]*Value{}, predDepth: env.predDepth + 1, facts: env.sink()}
	if ppkg == nil {
		n.pkg = env.pkg
	}
	if env.old != nil {
		n.old = &SpecEnv{reg: env.reg, pkg: n.pkg, st: env.old.st, vars: n.vars, predDepth: env.predDepth + 1, facts: env.sink()}
	}
	for i, pa := range p.Params {
		v := args[i]
		// give untyped arguments the declared type
		if gt := env.reg.resolveSTypeOrNil(n.pkg, pa.Type); gt != nil && (v.T == nil || isUntyped(v.T)) && v.K == VScalar && v.SpecKind == "" {
			c := *v
			c.T = gt
			v = &c
		}
		n.vars[pa.Name] = v
	}
	return n.eval(p.Body)
}

func (r *Registry) resolveSTypeOrNil(pkg *packages.Package, t *SType) types.Type {
	if t == nil {
		return nil
	}
	switch t.Kind {
	case "mmap", "set", "seq":
		return nil
	}
	return r.resolveSType(pkg, t)
}

// specLV resolves a field-selection expression to the heap l-value it denotes (nil if none).
func (env *SpecEnv) specLV(e *SExpr) *lvalue {
	if e.Kind != SField {
		return nil
	}
	x := env.eval(e.X)
	if x.T == nil {
		return nil
	}
	var base *lvalue
	t := x.T
	if x.Alias != nil {
		base = x.Alias
		if pt, ok := t.Underlying().(*types.Pointer); ok {
			t = pt.Elem()
		}
	} else if pt, ok := t.Underlying().(*types.Pointer); ok {
		base = &lvalue{kind: lvHeap, T: pt.Elem(), ref: x.S, prefix: structClass(pt.Elem())}
		t = pt.Elem()
	} else {
		base = env.specLV(e.X)
		if base == nil {
			return nil
		}
	}
	var pkg *types.Package
	if n, ok := t.(*types.Named); ok {
		pkg = n.Obj().Pkg()
	}
	obj, path, _ := types.LookupFieldOrMethod(t, true, pkg, e.Name)
	if _, ok := obj.(*types.Var); !ok {
		return nil
	}
	lv := base
	for _, idx := range path {
		if pt, isPtr := t.Underlying().(*types.Pointer); isPtr {
			v := env.st.load(lv)
			lv = &lvalue{kind: lvHeap, T: pt.Elem(), ref: v.S, prefix: structClass(pt.Elem())}
			t = pt.Elem()
		}
		stt, ok := t.Underlying().(*types.Struct)
		if !ok {
			return nil
		}
		lv = lv.field(stt, idx)
		t = stt.Field(idx).Type()
	}
	return lv
}

// evalModLoc turns a modifies entry into heap classes.
func (env *SpecEnv) evalModLoc(e *SExpr) []modLoc {
	switch e.Kind {
	case SField:
		x := env.eval(e.X)
		if x.T == nil {
			specFail("modifies: untyped base in %s", e)
		}
		st := x.T
		if p, ok := st.Underlying().(*types.Pointer); ok {
			st = p.Elem()
		}
		n, _ := st.(*types.Named)
		if n != nil && n.Obj().Pkg() != nil {
			key := n.Obj().Pkg().Path() + "." + n.Obj().Name() + "." + e.Name
			if g, ok := env.reg.gfields[key]; ok {
				var out []modLoc
				cls := "ghostf:" + key
				env.reg.specValue(env.reg.pkgs[n.Obj().Pkg().Path()], g.SType, func(path string, s *Sort) *Term {
					noteClass(cls+path, s, false)
					out = append(out, modLoc{class: cls + path, ref: x.S})
					return zeroTerm(s)
				})
				return out
			}
		}
		lv := env.specLV(e)
		if lv == nil || (lv.kind != lvHeap && lv.kind != lvElem) {
			specFail("modifies: %s is not a heap location", e)
		}
		var out []modLoc
		if typeName(lv.T) == "sync.Once" {
			noteClass(lv.prefix+"#once", SBool, false)
			out = append(out, modLoc{class: lv.prefix + "#once", ref: lv.ref})
		}
		for _, l := range leavesOf(lv.T) {
			srt := l.Sort
			if lv.kind == lvElem {
				srt = SArray(SInt, l.Sort)
			}
			noteClass(lv.prefix+l.Path, srt, false)
			out = append(out, modLoc{class: lv.prefix + l.Path, ref: lv.ref})
		}
		return out
	case SIdent:
		// ghost var or package var
		if env.pkg != nil {
			if g, ok := env.reg.gvars[env.pkg.PkgPath+"."+e.Name]; ok {
				var out []modLoc
				cls := "ghost:" + env.pkg.PkgPath + "." + g.Name
				env.reg.specValue(env.pkg, g.SType, func(path string, s *Sort) *Term {
					noteClass(cls+path, s, true)
					out = append(out, modLoc{class: cls + path})
					return zeroTerm(s)
				})
				return out
			}
			if o, ok := env.pkg.Types.Scope().Lookup(e.Name).(*types.Var); ok {
				var out []modLoc
				for _, l := range leavesOf(o.Type()) {
					cls := "g:" + o.Pkg().Path() + "." + o.Name() + l.Path
					noteClass(cls, l.Sort, true)
					out = append(out, modLoc{class: cls})
				}
				return out
			}
		}
		nmatch := 0
		for k := range env.reg.gvars {
			if strings.HasSuffix(k, "."+e.Name) {
				nmatch++
			}
		}
		if nmatch > 1 {
			specFail("ghost variable %q of another package is ambiguous among the loaded packages: name it with allof(\"ghost:<pkgpath>.%s\")", e.Name, e.Name)
		}
		for k, g := range env.reg.gvars {
			if strings.HasSuffix(k, "."+e.Name) {
				var out []modLoc
				cls := "ghost:" + k
				env.reg.specValue(nil, g.SType, func(path string, s *Sort) *Term {
					noteClass(cls+path, s, true)
					out = append(out, modLoc{class: cls + path})
					return zeroTerm(s)
				})
				return out
			}
		}
	case SCall:
		if e.X.Kind == SIdent {
			switch e.X.Name {
			case "elems":
				x := env.eval(e.Args[0])
				if x.K != VSlice {
					specFail("elems() needs a slice")
				}
				et := x.T.Underlying().(*types.Slice).Elem()
				var out []modLoc
				for _, l := range leavesOf(et) {
					cls := elemClass(et) + l.Path
					noteClass(cls, SArray(SInt, l.Sort), false)
					out = append(out, modLoc{class: cls, ref: x.Arr})
				}
				return out
			case "entries":
				x := env.eval(e.Args[0])
				m, ok := x.T.Underlying().(*types.Map)
				if !ok {
					specFail("entries() needs a map")
				}
				ks := keySort(m)
				cls := mapClass(m)
				out := []modLoc{{class: cls + "#dom", ref: x.S}, {class: cls + "#card", ref: x.S}}
				noteClass(cls+"#dom", SArray(ks, SBool), false)
				noteClass(cls+"#card", SInt, false)
				for _, l := range leavesOf(m.Elem()) {
					noteClass(cls+"#val"+l.Path, SArray(ks, l.Sort), false)
					out = append(out, modLoc{class: cls + "#val" + l.Path, ref: x.S})
				}
				return out
			case "allof":
				// allof("class") : a whole heap class by name (escape hatch, e.g. all fields of fresh objects)
				if e.Args[0].Kind == SStrLit {
					cn := e.Args[0].Name
					if strings.HasPrefix(cn, "ghost:") {
						// a ghost variable of another package named in full: a global class, its sort is the declared one
						if g, ok := env.reg.gvars[strings.TrimPrefix(cn, "ghost:")]; ok {
							var out []modLoc
							env.reg.specValue(nil, g.SType, func(path string, s *Sort) *Term {
								noteClass(cn+path, s, true)
								out = append(out, modLoc{class: cn + path})
								return zeroTerm(s)
							})
							return out
						}
					}
					return []modLoc{{class: cn, all: true}}
				}
			}
		}
	}
	specFail("unsupported modifies location %s", e)
	return nil
}
