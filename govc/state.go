package main

// Symbolic state: locals, Boogie-style heap, allocation, path condition, l-values.

import (
	"fmt"
	"go/types"
	"sort"
)

type deferItem struct {
	call interface{} // *ast.CallExpr
	// pre-evaluated pieces
	fn   *Value
	recv *Value
	args []*Value
	kind string // "call", "unlock", "lit"
	lock *lockRef
}

type lockRef struct {
	obj  *Term  // object owning the lock
	typ  string // struct type name
	lock string // lock field name
	rw   bool   // read lock
}

type State struct {
	vars    map[types.Object]*Value
	heap    map[string]*Term // class -> array (or scalar for globals/ghost vars)
	alloc   *Term
	pc      []*Term
	pcSet   map[int]bool
	defers  []*deferItem
	results []*Value
	held    []*lockRef
	dead    bool
	oldOverride map[string]*Term // lock-time values of guarded heap classes (for old())
	openFacts   []*Term          // facts mentioning bound variables (collected while evaluating a quantifier body)
	// ghost bookkeeping
	callCount map[string]int
}

func newState() *State {
	return &State{vars: map[types.Object]*Value{}, heap: map[string]*Term{}, pcSet: map[int]bool{}, callCount: map[string]int{}}
}

func (s *State) clone() *State {
	n := &State{
		vars: make(map[types.Object]*Value, len(s.vars)), heap: make(map[string]*Term, len(s.heap)),
		alloc: s.alloc, pc: append([]*Term(nil), s.pc...), pcSet: make(map[int]bool, len(s.pcSet)),
		defers: append([]*deferItem(nil), s.defers...), results: s.results, held: append([]*lockRef(nil), s.held...),
		dead: s.dead, callCount: make(map[string]int, len(s.callCount)), oldOverride: s.oldOverride,
	}
	for k, v := range s.vars {
		n.vars[k] = v
	}
	for k, v := range s.heap {
		n.heap[k] = v
	}
	for k, v := range s.pcSet {
		n.pcSet[k] = v
	}
	for k, v := range s.callCount {
		n.callCount[k] = v
	}
	return n
}

func (s *State) assume(ts ...*Term) {
	for _, t := range ts {
		for _, c := range conjuncts(t) {
			if c.isTrue() || s.pcSet[c.id] {
				continue
			}
			if len(c.open) > 0 {
				// mentions a bound variable: only meaningful under its quantifier
				s.openFacts = append(s.openFacts, c)
				continue
			}
			if c.isFalse() || s.pcSet[Not(c).id] {
				s.dead = true
			}
			s.pcSet[c.id] = true
			s.pc = append(s.pc, c)
		}
	}
}

// knows reports whether t is syntactically among the hypotheses.
func (s *State) knows(t *Term) bool {
	if t.isTrue() {
		return true
	}
	for _, c := range conjuncts(t) {
		if !s.pcSet[c.id] {
			return false
		}
	}
	return true
}

// ---- heap ----

func heapVarName(class string, version string) string { return "H" + version + ":" + class }

// heapArr returns the current array for a heap class with element sort es.
func (s *State) heapArr(class string, es *Sort) *Term {
	if t, ok := s.heap[class]; ok {
		return t
	}
	t := mkVar(heapVarName(class, "0"), SArray(SInt, es))
	s.heap[class] = t
	return t
}

// globalTerm returns the current value of a scalar global / ghost variable leaf.
func (s *State) globalTerm(class string, es *Sort) *Term {
	if t, ok := s.heap[class]; ok {
		return t
	}
	t := mkVar("G0:"+class, es)
	s.heap[class] = t
	return t
}

// classSorts remembers the element sort of each heap class (for havoc and frames).
var classSorts = map[string]*Sort{}
var classIsGlobal = map[string]bool{}

func noteClass(class string, es *Sort, global bool) {
	classSorts[class] = es
	if global {
		classIsGlobal[class] = true
	}
}

func (s *State) loadLeaf(class string, es *Sort, ref *Term) *Term {
	noteClass(class, es, false)
	return Select(s.heapArr(class, es), ref)
}

func (s *State) storeLeaf(class string, es *Sort, ref, v *Term) {
	noteClass(class, es, false)
	s.heap[class] = Store(s.heapArr(class, es), ref, v)
}

// loadObj reads a value of type t stored at ref under class prefix.
func (s *State) loadObj(prefix string, t types.Type, ref *Term) *Value {
	v := buildValue(t, prefix, func(path string, es *Sort) *Term { return s.loadLeaf(path, es, ref) })
	s.assumeLoaded(v)
	return v
}

// assumeLoaded adds the facts that hold of any value stored in memory.
func (s *State) assumeLoaded(v *Value) {
	s.assume(typeConstraints(v)...)
	var walk func(v *Value)
	walk = func(v *Value) {
		switch v.K {
		case VScalar:
			if v.T == nil {
				return
			}
			switch v.T.Underlying().(type) {
			case *types.Pointer, *types.Map:
				if v.S.Kind != KInt {
					s.assume(Or(Eq(v.S, mkInt(0)), Select(s.allocArr(), v.S)))
				}
			}
		case VSlice:
			if v.Arr.Kind != KInt {
				s.assume(Or(Eq(v.Arr, mkInt(0)), Select(s.allocArr(), v.Arr)))
			}
		case VStruct:
			for _, f := range v.F {
				walk(f)
			}
		}
	}
	walk(v)
}

func (s *State) storeObj(prefix string, ref *Term, v *Value) {
	forEachLeaf(v, prefix, func(path string, t *Term) { s.storeLeaf(path, t.Sort, ref, t) })
}

func (s *State) allocArr() *Term {
	if s.alloc == nil {
		s.alloc = mkVar("alloc0", SArray(SInt, SBool))
	}
	return s.alloc
}

// newRef allocates a fresh reference.
func (s *State) newRef(base string) *Term {
	r := mkVar(freshName(base), SInt)
	s.assume(Gt(r, mkInt(0)), Not(Select(s.allocArr(), r)))
	s.alloc = Store(s.allocArr(), r, TTrue)
	return r
}

// ---- struct classes ----

func structClass(t types.Type) string {
	if p, ok := t.Underlying().(*types.Pointer); ok {
		t = p.Elem()
	}
	return typeName(t)
}

func elemClass(elem types.Type) string { return "elem<" + typeName(elem) + ">" }

func mapClass(m *types.Map) string {
	return "map<" + typeName(m.Key()) + "," + typeName(m.Elem()) + ">"
}

// ---- l-values ----

type lvKind int

const (
	lvVar lvKind = iota
	lvHeap       // object field(s): ref + class prefix
	lvElem       // slice element: arr, idx + class prefix
	lvGlobal     // package-level variable
	lvBlank
	lvMap // map entry (whole value only)
)

type lvalue struct {
	kind   lvKind
	T      types.Type
	obj    types.Object // lvVar
	path   []int        // lvVar: field indices into the struct value
	ref    *Term        // lvHeap: object ref; lvElem: backing array ref; lvMap: map ref
	idx    *Term        // lvElem: index; lvMap: key
	prefix string       // class prefix
	mapT   *types.Map
}

func (lv *lvalue) field(st *types.Struct, i int) *lvalue {
	f := st.Field(i)
	n := *lv
	n.T = f.Type()
	switch lv.kind {
	case lvVar:
		n.path = append(append([]int(nil), lv.path...), i)
	case lvHeap, lvElem, lvGlobal:
		n.prefix = lv.prefix + "." + f.Name()
	default:
		panic(unsupported("field of this l-value kind"))
	}
	return &n
}

func (s *State) load(lv *lvalue) *Value {
	switch lv.kind {
	case lvVar:
		v, ok := s.vars[lv.obj]
		if !ok {
			panic(fmt.Sprintf("internal: variable %s not bound", lv.obj.Name()))
		}
		for _, i := range lv.path {
			v = v.F[i]
		}
		return v
	case lvHeap:
		return s.loadObj(lv.prefix, lv.T, lv.ref)
	case lvElem:
		v := buildValue(lv.T, lv.prefix, func(path string, es *Sort) *Term {
			noteClass(path, SArray(SInt, es), false)
			return Select(Select(s.heapArr(path, SArray(SInt, es)), lv.ref), lv.idx)
		})
		s.assumeLoaded(v)
		return v
	case lvGlobal:
		v := buildValue(lv.T, lv.prefix, func(path string, es *Sort) *Term {
			noteClass(path, es, true)
			return s.globalTerm(path, es)
		})
		s.assumeLoaded(v)
		if n, ok := finalGlobalLen[lv.prefix]; ok && v.K == VSlice {
			s.assume(Eq(v.Len, mkInt(n)))
			if es, ok := finalGlobalElems[lv.prefix]; ok {
				// NOTE: element facts are about the current heap; they are only recorded for slices whose
				// elements are never assigned in the package (checked syntactically at load time)
				cls := elemClass(types.Typ[types.String])
				as := SArray(SInt, SString)
				noteClass(cls, as, false)
				inner := Select(s.heapArr(cls, as), v.Arr)
				for i, e := range es {
					s.assume(Eq(Select(inner, mkInt(int64(i))), mkStr(e)))
				}
			}
		}
		if finalGlobalNonNil[lv.prefix] && v.K == VIface {
			s.assume(Neq(v.Typ, mkInt(0)), Neq(v.S, mkInt(0)))
		}
		return v
	case lvMap:
		return s.mapGet(lv.mapT, lv.ref, lv.idx)
	}
	panic("load: bad lvalue")
}

func replaceField(v *Value, path []int, nv *Value) *Value {
	if len(path) == 0 {
		return nv
	}
	c := *v
	c.F = append([]*Value(nil), v.F...)
	c.F[path[0]] = replaceField(v.F[path[0]], path[1:], nv)
	return &c
}

func (s *State) store(lv *lvalue, v *Value) {
	switch lv.kind {
	case lvBlank:
	case lvVar:
		if len(lv.path) == 0 {
			s.vars[lv.obj] = v
		} else {
			s.vars[lv.obj] = replaceField(s.vars[lv.obj], lv.path, v)
		}
	case lvHeap:
		s.storeObj(lv.prefix, lv.ref, v)
	case lvElem:
		forEachLeaf(v, lv.prefix, func(path string, t *Term) {
			as := SArray(SInt, t.Sort)
			noteClass(path, as, false)
			h := s.heapArr(path, as)
			s.heap[path] = Store(h, lv.ref, Store(Select(h, lv.ref), lv.idx, t))
		})
	case lvGlobal:
		forEachLeaf(v, lv.prefix, func(path string, t *Term) {
			noteClass(path, t.Sort, true)
			s.heap[path] = t
		})
	case lvMap:
		s.mapPut(lv.mapT, lv.ref, lv.idx, v)
	}
}

// ---- maps ----
// map<K,V>#dom : Ref -> (K -> Bool), map<K,V>#val<leaf> : Ref -> (K -> leaf), map<K,V>#card : Ref -> Int

func keySort(m *types.Map) *Sort {
	s, ok := scalarSort(m.Key())
	if !ok {
		if _, isIface := m.Key().Underlying().(*types.Interface); isIface {
			panic(unsupported("map with interface key: " + typeName(m)))
		}
		panic(unsupported("map with composite key " + typeName(m.Key())))
	}
	return s
}

func (s *State) mapDom(m *types.Map, ref *Term) *Term {
	return s.loadLeaf(mapClass(m)+"#dom", SArray(keySort(m), SBool), ref)
}

func (s *State) mapCard(m *types.Map, ref *Term) *Term {
	c := s.loadLeaf(mapClass(m)+"#card", SInt, ref)
	s.assume(Ge(c, mkInt(0)))
	return c
}

func (s *State) mapHas(m *types.Map, ref, key *Term) *Term {
	return Select(s.mapDom(m, ref), key)
}

func (s *State) mapGetRaw(m *types.Map, ref, key *Term) *Value {
	ks := keySort(m)
	v := buildValue(m.Elem(), mapClass(m)+"#val", func(path string, es *Sort) *Term {
		return Select(s.loadLeaf(path, SArray(ks, es), ref), key)
	})
	return v
}

// mapGet returns m[key] (zero value when absent).
func (s *State) mapGet(m *types.Map, ref, key *Term) *Value {
	raw := s.mapGetRaw(m, ref, key)
	has := And(Neq(ref, mkInt(0)), s.mapHas(m, ref, key)) // reading a nil map yields the zero value
	v := valueIte(has, raw, zeroValue(m.Elem()))
	s.assumeLoaded(v)
	return v
}

func (s *State) mapPut(m *types.Map, ref, key *Term, v *Value) {
	ks := keySort(m)
	cls := mapClass(m)
	has := s.mapHas(m, ref, key)
	card := s.mapCard(m, ref)
	s.storeLeaf(cls+"#card", SInt, ref, Ite(has, card, Add(card, mkInt(1))))
	s.storeLeaf(cls+"#dom", SArray(ks, SBool), ref, Store(s.mapDom(m, ref), key, TTrue))
	forEachLeaf(v, cls+"#val", func(path string, t *Term) {
		as := SArray(ks, t.Sort)
		s.storeLeaf(path, as, ref, Store(s.loadLeaf(path, as, ref), key, t))
	})
}

func (s *State) mapDelete(m *types.Map, ref, key *Term) {
	ks := keySort(m)
	cls := mapClass(m)
	has := s.mapHas(m, ref, key)
	card := s.mapCard(m, ref)
	s.storeLeaf(cls+"#card", SInt, ref, Ite(has, Sub(card, mkInt(1)), card))
	s.storeLeaf(cls+"#dom", SArray(ks, SBool), ref, Store(s.mapDom(m, ref), key, TFalse))
}

// newMap allocates an empty map.
func (s *State) newMap(m *types.Map) *Term {
	r := s.newRef("map")
	ks := keySort(m)
	cls := mapClass(m)
	s.storeLeaf(cls+"#card", SInt, r, mkInt(0))
	s.storeLeaf(cls+"#dom", SArray(ks, SBool), r, ConstArray(SArray(ks, SBool), TFalse))
	return r
}

// ---- merging ----

// mergeStates joins a (taken under cond) and b (under !cond), both derived from base.
func mergeStates(base *State, cond *Term, a, b *State) *State {
	if a.dead {
		return b
	}
	if b.dead {
		return a
	}
	if len(a.defers) != len(b.defers) || len(a.held) != len(b.held) {
		return nil
	}
	for i := range a.defers {
		if a.defers[i] != b.defers[i] {
			return nil
		}
	}
	n := base.clone()
	n.defers = a.defers
	n.held = a.held
	n.pc = append([]*Term(nil), base.pc...)
	n.pcSet = map[int]bool{}
	for _, t := range n.pc {
		n.pcSet[t.id] = true
	}
	extra := func(s *State, c *Term) {
		var ex []*Term
		for _, t := range s.pc {
			if !base.pcSet[t.id] && t != c {
				ex = append(ex, t)
			}
		}
		if len(ex) > 0 {
			n.assume(Implies(c, And(ex...)))
		}
	}
	extra(a, cond)
	extra(b, Not(cond))
	// vars
	keys := map[types.Object]bool{}
	for k := range a.vars {
		keys[k] = true
	}
	for k := range b.vars {
		keys[k] = true
	}
	for k := range keys {
		va, oka := a.vars[k]
		vb, okb := b.vars[k]
		switch {
		case oka && okb:
			n.vars[k] = valueIte(cond, va, vb)
		case oka:
			if _, inBase := base.vars[k]; inBase {
				n.vars[k] = va
			} else {
				delete(n.vars, k) // declared in one branch only: out of scope after the join
			}
		case okb:
			if _, inBase := base.vars[k]; inBase {
				n.vars[k] = vb
			} else {
				delete(n.vars, k)
			}
		}
	}
	hk := map[string]bool{}
	for k := range a.heap {
		hk[k] = true
	}
	for k := range b.heap {
		hk[k] = true
	}
	var hks []string
	for k := range hk {
		hks = append(hks, k)
	}
	sort.Strings(hks)
	for _, k := range hks {
		ta, oka := a.heap[k]
		tb, okb := b.heap[k]
		if !oka {
			ta = initialHeapTerm(k, tb.Sort)
		}
		if !okb {
			tb = initialHeapTerm(k, ta.Sort)
		}
		n.heap[k] = Ite(cond, ta, tb)
	}
	aa, ab := a.alloc, b.alloc
	if aa != nil || ab != nil {
		if aa == nil {
			aa = mkVar("alloc0", SArray(SInt, SBool))
		}
		if ab == nil {
			ab = mkVar("alloc0", SArray(SInt, SBool))
		}
		n.alloc = Ite(cond, aa, ab)
	}
	for k, v := range a.callCount {
		if b.callCount[k] != v {
			return nil
		}
		n.callCount[k] = v
	}
	if len(a.callCount) != len(b.callCount) {
		return nil
	}
	return n
}

func initialHeapTerm(class string, srt *Sort) *Term {
	if classIsGlobal[class] {
		return mkVar("G0:"+class, srt)
	}
	return mkVar(heapVarName(class, "0"), srt)
}

// aliasAddr gives a pointer to a location inside an object (embedded struct, slice element) a stable
// identity: an injective-looking uninterpreted function of the owning reference (and index).
func aliasAddr(st *State, lv *lvalue) *Term {
	var a *Term
	switch lv.kind {
	case lvHeap:
		a = mkUF("addr:"+lv.prefix, SInt, lv.ref)
	case lvElem:
		a = mkUF("addr:"+lv.prefix, SInt, lv.ref, lv.idx)
	default:
		a = mkVar(freshName("alias"), SInt)
	}
	st.assume(Gt(a, mkInt(0)))
	return a
}
