package main

// Loops: invariants, havoc of loop targets, range loops.

import (
	"fmt"
	"go/ast"
	"go/token"
	"go/types"
	"sort"
	"strings"
)

type loopMods struct {
	vars     map[*types.Var]bool
	classes  map[string]*Sort // leaf class -> element sort (as in classSorts)
	globals  map[string]*Sort
	allocs   bool
	wholeOf  map[string]bool // classes written at refs we cannot name (callee modifies through params)
}

func newLoopMods() *loopMods {
	return &loopMods{vars: map[*types.Var]bool{}, classes: map[string]*Sort{}, globals: map[string]*Sort{}, wholeOf: map[string]bool{}}
}

func (m *loopMods) addType(prefix string, t types.Type) {
	for _, l := range leavesOf(t) {
		m.classes[prefix+l.Path] = l.Sort
	}
}

func (m *loopMods) addElem(elem types.Type) {
	for _, l := range leavesOf(elem) {
		m.classes[elemClass(elem)+l.Path] = SArray(SInt, l.Sort)
	}
}

func (m *loopMods) addMap(mt *types.Map) {
	ks := keySort(mt)
	cls := mapClass(mt)
	m.classes[cls+"#dom"] = SArray(ks, SBool)
	m.classes[cls+"#card"] = SInt
	for _, l := range leavesOf(mt.Elem()) {
		m.classes[cls+"#val"+l.Path] = SArray(ks, l.Sort)
	}
}

// fieldPrefix computes the heap class prefix of a field selection, or "" when it is a local struct field.
func fieldPrefix(info *types.Info, x *ast.SelectorExpr) (prefix string, fieldT types.Type, local *types.Var) {
	sel, ok := info.Selections[x]
	if !ok || sel.Kind() != types.FieldVal {
		return "", nil, nil
	}
	t := info.TypeOf(x.X)
	// base prefix
	switch b := unparen(x.X).(type) {
	case *ast.SelectorExpr:
		if p, _, l := fieldPrefix(info, b); p != "" {
			prefix = p
		} else if l != nil {
			local = l
		}
	case *ast.Ident:
		if v, ok := info.ObjectOf(b).(*types.Var); ok {
			if v.Pkg() != nil && v.Pkg().Scope().Lookup(v.Name()) == v {
				prefix = "g:" + v.Pkg().Path() + "." + v.Name()
			} else {
				local = v
			}
		}
	case *ast.IndexExpr:
		bt := info.TypeOf(b.X)
		if sl, ok := bt.Underlying().(*types.Slice); ok {
			prefix = elemClass(sl.Elem())
		}
	}
	for _, idx := range sel.Index() {
		if pt, isPtr := t.Underlying().(*types.Pointer); isPtr {
			prefix = structClass(pt.Elem())
			local = nil
			t = pt.Elem()
		}
		stt, ok := t.Underlying().(*types.Struct)
		if !ok {
			return "", nil, nil
		}
		if prefix != "" {
			prefix += "." + stt.Field(idx).Name()
		}
		t = stt.Field(idx).Type()
	}
	return prefix, t, local
}

func (fr *frame) scanMods(m *loopMods, info *types.Info, nodes []ast.Node, depth int) {
	reg := fr.fc.reg
	var lhs func(e ast.Expr)
	lhs = func(e ast.Expr) {
		switch x := unparen(e).(type) {
		case *ast.Ident:
			if v, ok := info.ObjectOf(x).(*types.Var); ok {
				if v.Pkg() != nil && v.Pkg().Scope().Lookup(v.Name()) == v {
					for _, l := range leavesOf(v.Type()) {
						m.globals["g:"+v.Pkg().Path()+"."+v.Name()+l.Path] = l.Sort
					}
				} else {
					m.vars[v] = true
				}
			}
		case *ast.SelectorExpr:
			p, ft, local := fieldPrefix(info, x)
			if p != "" {
				if strings.HasPrefix(p, "g:") {
					for _, l := range leavesOf(ft) {
						m.globals[p+l.Path] = l.Sort
					}
				} else if strings.HasPrefix(p, "elem<") {
					for _, l := range leavesOf(ft) {
						m.classes[p+l.Path] = SArray(SInt, l.Sort)
					}
				} else {
					m.addType(p, ft)
				}
			} else if local != nil {
				m.vars[local] = true
			}
			// alias pointers: b := &s[i]; b.f = ...  (base is a local pointer alias): conservatively add
			if id, ok := unparen(x.X).(*ast.Ident); ok {
				if v, ok := info.ObjectOf(id).(*types.Var); ok {
					if pt, ok := v.Type().Underlying().(*types.Pointer); ok {
						// writes through a pointer to an element struct may hit elem classes
						for _, l := range leavesOf(pt.Elem()) {
							_ = l
						}
						if st, ok := pt.Elem().Underlying().(*types.Struct); ok {
							_ = st
							sel := info.Selections[x]
							if sel != nil {
								f := sel.Obj().(*types.Var)
								for _, l := range leavesOf(f.Type()) {
									m.classes[elemClass(pt.Elem())+"."+f.Name()+l.Path] = SArray(SInt, l.Sort)
								}
							}
						}
					}
				}
			}
		case *ast.IndexExpr:
			bt := info.TypeOf(x.X)
			switch u := bt.Underlying().(type) {
			case *types.Slice:
				m.addElem(u.Elem())
			case *types.Array:
				m.addElem(u.Elem())
			case *types.Map:
				m.addMap(u)
			}
		case *ast.StarExpr:
			if pt, ok := info.TypeOf(x.X).Underlying().(*types.Pointer); ok {
				if _, isStruct := pt.Elem().Underlying().(*types.Struct); isStruct {
					m.addType(structClass(pt.Elem()), pt.Elem())
					m.addElem(pt.Elem()) // the pointer may alias a slice element (p := &s[i]; *p = v)
				} else {
					m.addType("box<"+typeName(pt.Elem())+">", pt.Elem())
				}
			}
		}
	}
	for _, n := range nodes {
		if n == nil {
			continue
		}
		ast.Inspect(n, func(n ast.Node) bool {
			switch x := n.(type) {
			case *ast.AssignStmt:
				for _, l := range x.Lhs {
					lhs(l)
				}
			case *ast.IncDecStmt:
				lhs(x.X)
			case *ast.RangeStmt:
				if x.Key != nil {
					lhs(x.Key)
				}
				if x.Value != nil {
					lhs(x.Value)
				}
			case *ast.DeclStmt:
				if gd, ok := x.Decl.(*ast.GenDecl); ok {
					for _, sp := range gd.Specs {
						if vs, ok := sp.(*ast.ValueSpec); ok {
							for _, nm := range vs.Names {
								if v, ok := info.Defs[nm].(*types.Var); ok && v != nil {
									m.vars[v] = true
								}
							}
						}
					}
				}
			case *ast.UnaryExpr:
				if x.Op == token.AND {
					if cl, ok := unparen(x.X).(*ast.CompositeLit); ok {
						t := info.TypeOf(cl)
						m.allocs = true
						m.addType(structClass(t), t)
					}
				}
			case *ast.CompositeLit:
				t := info.TypeOf(x)
				if t != nil {
					switch u := t.Underlying().(type) {
					case *types.Slice:
						m.allocs = true
						m.addElem(u.Elem())
						if pt, ok := u.Elem().Underlying().(*types.Pointer); ok {
							m.addType(structClass(pt.Elem()), pt.Elem())
						}
					case *types.Map:
						m.allocs = true
						m.addMap(u)
					}
				}
			case *ast.CallExpr:
				fr.scanCallMods(m, info, x, depth)
			case *ast.FuncLit:
				// executed inline when called/deferred: scan body
				return true
			}
			return true
		})
	}
	_ = reg
}

func (fr *frame) scanCallMods(m *loopMods, info *types.Info, call *ast.CallExpr, depth int) {
	reg := fr.fc.reg
	if tv, ok := info.Types[call.Fun]; ok && tv.IsType() {
		// conversions may allocate ([]byte(s))
		if sl, ok := tv.Type.Underlying().(*types.Slice); ok {
			m.allocs = true
			m.addElem(sl.Elem())
		}
		return
	}
	fun := unparen(call.Fun)
	if id, ok := fun.(*ast.Ident); ok {
		if b, ok := info.ObjectOf(id).(*types.Builtin); ok {
			switch b.Name() {
			case "append":
				if sl, ok := info.TypeOf(call.Args[0]).Underlying().(*types.Slice); ok {
					m.allocs = true
					m.addElem(sl.Elem())
				}
			case "copy":
				if sl, ok := info.TypeOf(call.Args[0]).Underlying().(*types.Slice); ok {
					m.addElem(sl.Elem())
				}
			case "make":
				m.allocs = true
				switch u := info.TypeOf(call.Args[0]).Underlying().(type) {
				case *types.Slice:
					m.addElem(u.Elem())
				case *types.Map:
					m.addMap(u)
				}
			case "new":
				m.allocs = true
				t := info.TypeOf(call.Args[0])
				if _, ok := t.Underlying().(*types.Struct); ok {
					m.addType(structClass(t), t)
				} else {
					m.addType("box<"+typeName(t)+">", t)
				}
			case "delete":
				if mt, ok := info.TypeOf(call.Args[0]).Underlying().(*types.Map); ok {
					m.addMap(mt)
				}
			}
			return
		}
	}
	var fn *types.Func
	switch f := fun.(type) {
	case *ast.Ident:
		fn, _ = info.ObjectOf(f).(*types.Func)
		if v, ok := info.ObjectOf(f).(*types.Var); ok && v.Pkg() != nil {
			if c := reg.contracts[v.Pkg().Path()+"."+v.Name()]; c != nil {
				fr.contractMods(m, c, reg.pkgs[v.Pkg().Path()], v.Type().Underlying().(*types.Signature), nil)
				return
			}
		}
	case *ast.SelectorExpr:
		if sel, ok := info.Selections[f]; ok {
			if sel.Kind() == types.MethodVal {
				fn = sel.Obj().(*types.Func)
				switch fn.FullName() {
				case "(*sync.Mutex).Lock", "(*sync.RWMutex).Lock", "(*sync.RWMutex).RLock":
					// guarded fields are havoc'd at acquisition
					var ownerT types.Type
					if lockSel, isSel := unparen(f.X).(*ast.SelectorExpr); isSel {
						if ls, ok := info.Selections[lockSel]; ok && ls.Kind() == types.FieldVal && (typeName(ls.Obj().Type()) == "sync.Mutex" || typeName(ls.Obj().Type()) == "sync.RWMutex") {
							ownerT = info.TypeOf(lockSel.X)
						}
					}
					if ownerT == nil {
						ownerT = info.TypeOf(f.X) // embedded mutex: x.Lock()
					}
					if ownerT == nil {
						return
					}
					if p, ok := ownerT.Underlying().(*types.Pointer); ok {
						ownerT = p.Elem()
					}
					if n, ok := ownerT.(*types.Named); ok {
						key := n.Obj().Pkg().Path() + "." + n.Obj().Name()
						if g, ok := reg.guards[key]; ok {
							stt := n.Underlying().(*types.Struct)
							for _, gf := range g.Fields {
								found := false
								for i := 0; i < stt.NumFields(); i++ {
									if stt.Field(i).Name() == gf {
										m.addType(structClass(n)+"."+gf, stt.Field(i).Type())
										found = true
									}
								}
								if !found {
									if gfd, ok := reg.gfields[key+"."+gf]; ok {
										cls := "ghostf:" + key + "." + gf
										reg.specValue(reg.pkgs[n.Obj().Pkg().Path()], gfd.SType, func(path string, s *Sort) *Term {
											m.classes[cls+path] = s
											return zeroTerm(s)
										})
									}
								}
							}
						}
					}
					return
				case "(*sync.Mutex).Unlock", "(*sync.RWMutex).Unlock", "(*sync.RWMutex).RUnlock":
					return
				case "(*sync.Once).Do":
					if s2, ok := unparen(f.X).(*ast.SelectorExpr); ok {
						if p, _, _ := fieldPrefix(info, s2); p != "" {
							m.classes[p+"#once"] = SBool
						}
					}
					return
				}
			}
		} else {
			fn, _ = info.ObjectOf(f.Sel).(*types.Func)
		}
	}
	if fn == nil {
		// a local holding a function literal whose contract is applied where it is called (flag use=contract):
		// the loop targets are that contract's modifies clause
		if id, ok := fun.(*ast.Ident); ok && fr.scanState != nil {
			if v, ok := info.ObjectOf(id).(*types.Var); ok {
				if val := fr.scanState.vars[v]; val != nil && val.K == VFunc && val.Fn != nil && val.Fn.Lit != nil && val.Fn.Owner != nil && val.Fn.Owner.contract != nil {
					if cc := val.Fn.Owner.contract.Closures[val.Fn.Ordinal]; cc != nil && cc.Flags["use"] == "contract" {
						if sig, ok := info.TypeOf(id).Underlying().(*types.Signature); ok {
							fr.contractMods(m, cc, fr.pkg, sig, nil)
							return
						}
					}
				}
			}
		}
		if id, ok := fun.(*ast.Ident); ok && fr.fn != nil {
			if c := reg.contracts[funcKey(fr.fn.Origin())+"#"+id.Name]; c != nil {
				if sig, ok := info.TypeOf(id).Underlying().(*types.Signature); ok {
					fr.contractMods(m, c, fr.pkg, sig, nil)
					return
				}
			}
		}
		// call of a function value: contract attached to its named function type (`func (f T) call(...)`)
		if t := info.TypeOf(call.Fun); t != nil {
			if n, ok := t.(*types.Named); ok && n.Obj().Pkg() != nil {
				if sig, ok := n.Underlying().(*types.Signature); ok {
					k2 := n.Obj().Pkg().Path() + "." + n.Obj().Name()
					for _, k := range []string{k2 + ".call", k2} {
						if c := reg.contracts[k]; c != nil {
							fr.contractMods(m, c, reg.pkgs[n.Obj().Pkg().Path()], sig, nil)
							return
						}
					}
				}
			}
		}
		return
	}
	full := fn.FullName()
	if reg.isNoEffect(full) {
		return
	}
	if fn.Pkg() != nil && fn.Pkg().Path() == "sync/atomic" && len(call.Args) > 0 {
		if u, ok := unparen(call.Args[0]).(*ast.UnaryExpr); ok && u.Op == token.AND {
			if s, ok := unparen(u.X).(*ast.SelectorExpr); ok {
				if p, ft, _ := fieldPrefix(info, s); p != "" {
					m.addType(p, ft)
				}
			}
		}
		return
	}
	if c := reg.contractFor(fn); c != nil && !c.Inline {
		fr.recvAliasPrefix = ""
		if f, ok := fun.(*ast.SelectorExpr); ok {
			if sel, ok := info.Selections[f]; ok && sel.Kind() == types.MethodVal && len(sel.Index()) > 1 {
				// promoted method: the receiver is an embedded struct; find its heap class prefix
				t := info.TypeOf(f.X)
				prefix := ""
				for _, idx := range sel.Index()[:len(sel.Index())-1] {
					if pt, isPtr := t.Underlying().(*types.Pointer); isPtr {
						prefix = structClass(pt.Elem())
						t = pt.Elem()
					}
					stt, ok := t.Underlying().(*types.Struct)
					if !ok {
						prefix = ""
						break
					}
					if prefix != "" {
						prefix += "." + stt.Field(idx).Name()
					}
					t = stt.Field(idx).Type()
				}
				if _, isPtr := t.Underlying().(*types.Pointer); !isPtr {
					fr.recvAliasPrefix = prefix
					fr.recvAliasType = t
				}
			}
		}
		fr.contractMods(m, c, reg.pkgs[fn.Pkg().Path()], fn.Type().(*types.Signature), fn)
		fr.recvAliasPrefix = ""
		return
	}
	if decl := reg.funcDecls[full]; decl != nil && decl.Body != nil && depth < maxInlineDepth {
		pkg := reg.declPkg[full]
		sub := newLoopMods()
		fr.scanMods(sub, pkg.TypesInfo, []ast.Node{decl.Body}, depth+1)
		for k, v := range sub.classes {
			m.classes[k] = v
		}
		for k, v := range sub.globals {
			m.globals[k] = v
		}
		if sub.allocs {
			m.allocs = true
		}
		return
	}
}

// contractMods adds the heap classes named by a callee contract's modifies clause.
func (fr *frame) contractMods(m *loopMods, c *FuncContract, pkg *packagesPackage, sig *types.Signature, fn *types.Func) {
	st := newState()
	env := &SpecEnv{reg: fr.fc.reg, pkg: pkg, st: st, vars: map[string]*Value{}}
	if pkg == nil {
		env.pkg = fr.pkg
	}
	if sig.Recv() != nil && c.RecvName != "" {
		rv := freshValue(sig.Recv().Type(), "scan")
		if fr.recvAliasPrefix != "" {
			rv = &Value{K: VScalar, T: sig.Recv().Type(), S: mkVar(freshName("scanalias"), SInt),
				Alias: &lvalue{kind: lvHeap, T: fr.recvAliasType, ref: mkVar(freshName("scanref"), SInt), prefix: fr.recvAliasPrefix}}
		}
		env.vars[c.RecvName] = rv
	}
	shift := 0
	if sig.Recv() != nil && c.RecvName == "" && c.External != "" && len(c.Params) > 0 {
		// models of external methods list the receiver as their first parameter
		env.vars[c.Params[0]] = freshValue(sig.Recv().Type(), "scan")
		shift = 1
	}
	for i, n := range c.Params {
		if i < shift {
			continue
		}
		if i-shift < sig.Params().Len() {
			env.vars[n] = freshValue(sig.Params().At(i-shift).Type(), "scan")
		}
	}
	// (the contract of a function literal may name the receiver and the parameters of its enclosing function)
	for k, v := range fr.fc.paramVals {
		if _, ok := env.vars[k]; !ok {
			env.vars[k] = v
		}
	}
	for _, cl := range c.Clauses {
		if cl.Kind != "modifies" {
			continue
		}
		for _, loc := range cl.Locs {
			for _, ml := range env.evalModLoc(loc) {
				if classIsGlobal[ml.class] {
					m.globals[ml.class] = classSorts[ml.class]
				} else {
					m.classes[ml.class] = classSorts[ml.class]
				}
			}
		}
	}
	if c.Flags["allocates"] == "true" {
		m.allocs = true
	}
}

// havocLoop replaces loop targets by fresh values, keeping what the function's frame guarantees.
func (fr *frame) havocLoop(st *State, m *loopMods) {
	fc := fr.fc
	var vs []*types.Var
	for v := range m.vars {
		if _, bound := st.vars[v]; bound {
			vs = append(vs, v)
		}
	}
	sort.Slice(vs, func(i, j int) bool { return vs[i].Pos() < vs[j].Pos() })
	for _, v := range vs {
		old := st.vars[v]
		if old.K == VFunc {
			continue
		}
		nv := freshValue(v.Type(), "loop:"+v.Name())
		if old.Alias != nil {
			continue
		}
		st.vars[v] = nv
		st.assumeLoaded(nv)
	}
	for _, g := range sortedKeys(m.globals) {
		noteClass(g, m.globals[g], true)
		st.heap[g] = mkVar(freshName("Gl:"+g), m.globals[g])
	}
	alloc0 := fc.entry.allocArr()
	if m.allocs {
		na := mkVar(freshName("allocl"), SArray(SInt, SBool))
		r := mkBVar(freshName("r"), SInt)
		st.assume(Forall([]*Term{r}, Implies(Select(st.allocArr(), r), Select(na, r))))
		st.alloc = na
	}
	for _, c := range sortedKeys(m.classes) {
		es := m.classes[c]
		if es == nil {
			es = classSorts[c]
		}
		if es == nil {
			es = sortOfClassName(c)
		}
		if es == nil && strings.HasPrefix(c, "ghostf:") {
			// a ghost field named in full by a callee's modifies clause: its declared sort (per object: Ref -> sort)
			if gfd, ok := fc.reg.gfields[strings.TrimPrefix(c, "ghostf:")]; ok {
				fc.reg.specValue(nil, gfd.SType, func(path string, srt *Sort) *Term {
					if path == "" {
						es = srt
					}
					return zeroTerm(srt)
				})
			}
		}
		if es == nil {
			panic(unsupported("loop target heap class " + c + " has an unknown sort (named only through allof before any use)"))
		}
		noteClass(c, es, false)
		pre := st.heapArr(c, es)
		var allowed []*Term
		whole := false
		for _, ml := range fc.modLocs {
			if ml.class == c {
				if ml.all || ml.ref == nil {
					whole = true
				} else {
					allowed = append(allowed, ml.ref)
				}
			}
		}
		nh := mkVar(freshName("Hl:"+c), SArray(SInt, es))
		st.heap[c] = nh
		if whole {
			continue
		}
		if !m.allocs {
			// of the objects that existed at function entry only the named locations can change: chain of stores
			h := pre
			for _, a := range allowed {
				h = Store(h, a, Select(nh, a))
			}
			if st.allocArr() == alloc0 {
				// nothing was allocated on this path before the loop: every object is an entry object
				st.heap[c] = h
				continue
			}
			// objects allocated by this function before the loop (fresh maps, slices, structs) are not
			// bound by the modifies clause: the loop may change them freely
			r := mkBVar(freshName("r"), SInt)
			st.assume(Forall([]*Term{r}, Implies(Select(alloc0, r), Eq(Select(nh, r), Select(h, r)))))
			continue
		}
		r := mkBVar(freshName("r"), SInt)
		var na []*Term
		for _, a := range allowed {
			na = append(na, Neq(r, a))
		}
		st.assume(Forall([]*Term{r}, Implies(And(append([]*Term{Select(alloc0, r)}, na...)...), Eq(Select(nh, r), Select(pre, r)))))
	}
}

func (fr *frame) invariantsFor(ord int) (invs []*Clause, decr *Clause) {
	if fr.contract == nil {
		return nil, nil
	}
	for _, cl := range fr.contract.Clauses {
		if cl.Kind == "invariant" && cl.Idx == ord {
			invs = append(invs, cl)
		}
		if cl.Kind == "decreases" && cl.Idx == ord {
			decr = cl
		}
	}
	return
}

type loopSpec struct {
	ord   int
	invs  []*Clause
	decr  *Clause
	extra map[string]*Value // cursor etc. visible to invariants
	// map ranges: "the ranged map still has the entries it had at loop entry", evaluated in the state the
	// invariant is evaluated in; visible to invariants as the boolean unchanged$k
	rangedSame func(s *State) *Term
}

func (fr *frame) checkInvs(st *State, ls *loopSpec, phase string) {
	env := fr.fc.invEnv(st, fr)
	for k, v := range ls.extra {
		env.vars[k] = v
		env.old.vars[k] = v
	}
	if ls.rangedSame != nil {
		env.vars[fmt.Sprintf("unchanged$%d", ls.ord)] = scalar(ls.rangedSame(st), types.Typ[types.Bool])
	}
	for i, cl := range ls.invs {
		name := cl.Name
		if name == "" {
			name = fmt.Sprintf("%d", i+1)
		}
		fr.fc.oblige(st, fr, "inv", fmt.Sprintf("inv[%d].%s/%s", ls.ord, phase, name), env.evalBool(cl.Expr))
	}
}

func (fr *frame) assumeInvs(st *State, ls *loopSpec) {
	env := fr.fc.invEnv(st, fr)
	for k, v := range ls.extra {
		env.vars[k] = v
		env.old.vars[k] = v
	}
	if ls.rangedSame != nil {
		env.vars[fmt.Sprintf("unchanged$%d", ls.ord)] = scalar(ls.rangedSame(st), types.Typ[types.Bool])
	}
	for _, cl := range ls.invs {
		st.assume(env.evalBool(cl.Expr))
	}
}

func (fr *frame) evalDecr(st *State, ls *loopSpec) *Term {
	if ls.decr == nil {
		return nil
	}
	env := fr.fc.invEnv(st, fr)
	for k, v := range ls.extra {
		env.vars[k] = v
	}
	return env.eval(ls.decr.Expr).S
}

// loopCore runs the generic loop rule. head is the state after init; cond evaluates the guard
// (nil = true); prepare binds per-iteration variables; post runs the post statement.
func (fr *frame) loopCore(st *State, node ast.Node, label string, scanNodes []ast.Node, ls *loopSpec,
	cond func(s *State) *Term, prepare func(s *State), body *ast.BlockStmt, post func(s *State) []Outcome,
	extraHavoc func(s *State)) []Outcome {

	fc := fr.fc
	if len(ls.invs) == 0 && fr.contract == nil {
		panic(unsupported(fmt.Sprintf("loop #%d in a function without contract (cannot be inlined)", ls.ord)))
	}
	// ghost updates attached to the loop entry: `ghost at loop[k]: target := value`
	if fr.contract != nil {
		for _, cl := range fr.contract.Clauses {
			if cl.Kind == "ghost" && cl.Where == fmt.Sprintf("loop[%d]", ls.ord) {
				fc.ghostAssign(st, fr, cl, ls.extra)
			}
		}
	}
	fr.checkInvs(st, ls, "init")
	m := newLoopMods()
	fr.scanState = st
	fr.scanMods(m, fr.info, scanNodes, fr.depth)
	fr.scanState = nil
	// ghost updates of this frame's contract that can fire inside the loop: their targets are loop targets
	if fr.contract != nil {
		fires := func(where string) bool {
			hit := false
			for _, n := range scanNodes {
				if n == nil {
					continue
				}
				ast.Inspect(n, func(x ast.Node) bool {
					switch y := x.(type) {
					case *ast.FuncLit:
						return false
					case *ast.CallExpr:
						name := calleeDisplayName(y, fr.info)
						short := name[strings.LastIndex(name, ".")+1:]
						ord := fr.callOrd[y]
						for _, cand := range []string{name, short} {
							if where == fmt.Sprintf("call[%d] %s", ord, cand) || where == "call "+cand {
								hit = true
							}
						}
					case *ast.ForStmt, *ast.RangeStmt:
						if where == fmt.Sprintf("loop[%d]", fr.loopOrd[x]) {
							hit = true
						}
					case *ast.SelectStmt:
						if strings.HasPrefix(where, "select-case") {
							hit = true
						}
					case *ast.SendStmt:
						if where == "send" {
							hit = true
						}
					}
					return true
				})
			}
			return hit
		}
		for _, cl := range fr.contract.Clauses {
			if cl.Kind != "ghost" || !fires(cl.Where) {
				continue
			}
			t := cl.Target
			for t.Kind == SIndex {
				t = t.X
			}
			env := fc.invEnv(st, fr)
			for k, v := range ls.extra {
				env.vars[k] = v
			}
			for _, ml := range env.evalModLoc(t) {
				if classIsGlobal[ml.class] {
					m.globals[ml.class] = classSorts[ml.class]
				} else {
					m.classes[ml.class] = classSorts[ml.class]
				}
			}
		}
	}
	fr.havocLoop(st, m)
	if extraHavoc != nil {
		extraHavoc(st)
	}
	fr.assumeInvs(st, ls)
	if !st.dead {
		fc.obls = append(fc.obls, &Obligation{Name: fmt.Sprintf("%s/%scover.loophead[%d]", fc.name, fr.prefix, ls.ord),
			Hyps: append([]*Term(nil), st.pc...), Goal: TTrue, Kind: "cover", Func: fc.name, Expect: "sat"})
	}
	head := st
	var outs []Outcome
	var exits []*State
	// exit on guard false
	if cond != nil {
		e := head.clone()
		c := cond(e)
		if !c.isTrue() {
			e.assume(Not(c))
			exits = append(exits, e)
		}
	}
	b := head.clone()
	if cond != nil {
		b.assume(cond(b))
	}
	d0 := fr.evalDecr(b, ls)
	if prepare != nil {
		prepare(b)
	}
	// `hint[k] name: e`: a proof step at the start of the body of loop k (invariants and guard assumed, the
	// iteration variables bound): proved as its own obligation, then assumed for the rest of the iteration
	if fr.contract != nil && !b.dead {
		for i, cl := range fr.contract.Clauses {
			if cl.Kind != "hint" || cl.Idx != ls.ord {
				continue
			}
			env := fc.invEnv(b, fr)
			for k, v := range ls.extra {
				env.vars[k] = v
				env.old.vars[k] = v
			}
			name := cl.Name
			if name == "" {
				name = fmt.Sprintf("%d", i+1)
			}
			t := env.evalBool(cl.Expr)
			fc.oblige(b, fr, "inv", fmt.Sprintf("hint[%d]/%s", ls.ord, name), t)
			b.assume(t)
		}
	}
	backEdge := func(s *State) {
		if post != nil {
			po := post(s)
			if len(po) != 1 || po[0].ctl != cNormal {
				panic(unsupported("loop post statement with control flow"))
			}
			s = po[0].st
		}
		// safety net: every heap class the body changed must have been havoc'd at the loop head
		for c, t := range s.heap {
			if ht, ok := head.heap[c]; ok && ht == t {
				continue
			}
			if _, ok := m.classes[c]; ok {
				continue
			}
			if _, ok := m.globals[c]; ok {
				continue
			}
			if _, ok := head.heap[c]; !ok && t == initialHeapTerm(c, t.Sort) {
				continue // first read only created the initial variable
			}
			panic(unsupported("loop body writes heap class " + c + " that the modification scan did not find (engine limitation)"))
		}
		fr.checkInvs(s, ls, "step")
		if d0 != nil {
			d1 := fr.evalDecr(s, ls)
			fc.oblige(s, fr, "inv", fmt.Sprintf("decreases[%d]", ls.ord), And(Ge(d0, mkInt(0)), Lt(d1, d0)))
		}
		fc.checkFrame(s, fr, head.heap, fmt.Sprintf("inv[%d].frame", ls.ord))
	}
	if !b.dead {
		for _, o := range fr.execBlock(b, body.List) {
			switch {
			case o.ctl == cNormal, o.ctl == cContinue && (o.label == "" || o.label == label):
				backEdge(o.st)
			case o.ctl == cBreak && (o.label == "" || o.label == label):
				exits = append(exits, o.st)
			default:
				outs = append(outs, o)
			}
		}
	}
	return append(outs, fr.join(head, exits)...)
}

func (fr *frame) execFor(st *State, x *ast.ForStmt, label string) []Outcome {
	if x.Init != nil {
		o := fr.exec(st, x.Init)
		if len(o) != 1 || o[0].ctl != cNormal {
			return o
		}
		st = o[0].st
	}
	ord := fr.loopOrd[x]
	invs, decr := fr.invariantsFor(ord)
	ls := &loopSpec{ord: ord, invs: invs, decr: decr, extra: map[string]*Value{}}
	var cond func(s *State) *Term
	if x.Cond != nil {
		cond = func(s *State) *Term { return fr.eval(s, x.Cond).S }
	}
	var post func(s *State) []Outcome
	if x.Post != nil {
		post = func(s *State) []Outcome { return fr.exec(s, x.Post) }
	}
	scan := []ast.Node{x.Body}
	if x.Post != nil {
		scan = append(scan, x.Post)
	}
	if x.Cond != nil {
		scan = append(scan, x.Cond)
	}
	return fr.loopCore(st, x, label, scan, ls, cond, nil, x.Body, post, nil)
}

func (fr *frame) execRange(st *State, x *ast.RangeStmt, label string) []Outcome {
	ord := fr.loopOrd[x]
	invs, decr := fr.invariantsFor(ord)
	ls := &loopSpec{ord: ord, invs: invs, decr: decr, extra: map[string]*Value{}}
	rt := fr.typeOf(x.X)
	rv := fr.eval(st, x.X)
	cursor := types.NewVar(token.NoPos, nil, fmt.Sprintf("idx$%d", ord), types.Typ[types.Int])
	st.vars[cursor] = scalar(mkInt(0), types.Typ[types.Int])
	bindVar := func(s *State, e ast.Expr, v *Value) {
		if e == nil {
			return
		}
		if id, ok := e.(*ast.Ident); ok && id.Name == "_" {
			return
		}
		if x.Tok == token.DEFINE {
			if o, ok := fr.info.Defs[e.(*ast.Ident)].(*types.Var); ok && o != nil {
				s.vars[o] = v
			}
			return
		}
		s.store(fr.lvalueOf(s, e), v)
	}
	cur := func(s *State) *Term { return s.vars[cursor].S }
	post := func(s *State) []Outcome {
		s.vars[cursor] = scalar(Add(cur(s), mkInt(1)), types.Typ[types.Int])
		return one(s)
	}
	scan := []ast.Node{x.Body}
	var n *Term
	var prepare func(s *State)
	var extraHavoc func(s *State)
	switch u := rt.Underlying().(type) {
	case *types.Slice:
		n = rv.Len
		ls.extra[fmt.Sprintf("range$%d", ord)] = rv // the ranged slice (evaluated once) is visible to invariants
		prepare = func(s *State) {
			bindVar(s, x.Key, s.vars[cursor])
			if x.Value != nil {
				ev := s.load(&lvalue{kind: lvElem, T: u.Elem(), ref: rv.Arr, idx: cur(s), prefix: elemClass(u.Elem())})
				bindVar(s, x.Value, ev)
			}
		}
	case *types.Basic:
		if u.Info()&types.IsInteger != 0 {
			n = rv.S
			prepare = func(s *State) { bindVar(s, x.Key, s.vars[cursor]) }
		} else if u.Info()&types.IsString != 0 {
			if fr.fc.contract == nil || fr.fc.contract.Flags["ascii"] != "true" {
				panic(unsupported("range over string without `flag ascii` (UTF-8 decoding not modelled)"))
			}
			fr.fc.reg.assumptions["range over string in "+fr.fc.name+": input assumed ASCII (one rune per byte)"] = true
			n = StrLen(rv.S)
			prepare = func(s *State) {
				bindVar(s, x.Key, s.vars[cursor])
				if x.Value != nil {
					c := mkApp("str.to_code", SInt, StrAt(rv.S, cur(s)))
					s.assume(Ge(c, mkInt(0)), Le(c, mkInt(127)))
					bindVar(s, x.Value, scalar(c, types.Typ[types.Rune]))
				}
			}
		}
	case *types.Map:
		ks := keySort(u)
		keys := mkVar(freshName(fmt.Sprintf("keys$%d", ord)), SArray(SInt, ks))
		posm := mkVar(freshName(fmt.Sprintf("pos$%d", ord)), SArray(ks, SInt))
		dom0 := Ite(Eq(rv.S, mkInt(0)), ConstArray(SArray(ks, SBool), TFalse), st.mapDom(u, rv.S))
		n = Ite(Eq(rv.S, mkInt(0)), mkInt(0), st.mapCard(u, rv.S))
		i := mkBVar(freshName("i"), SInt)
		j := mkBVar(freshName("j"), SInt)
		k := mkBVar(freshName("k"), ks)
		inRange := func(t *Term) *Term { return And(Le(mkInt(0), t), Lt(t, n)) }
		st.assume(
			Forall([]*Term{i}, Implies(inRange(i), And(Select(dom0, Select(keys, i)), Eq(Select(posm, Select(keys, i)), i)))),
			Forall([]*Term{k}, Implies(Select(dom0, k), And(inRange(Select(posm, k)), Eq(Select(keys, Select(posm, k)), k)))),
		)
		_ = j
		fr.fc.reg.assumptions["map range: iteration over an arbitrary duplicate-free enumeration of the key set at loop entry; the body may delete only keys"] = true
		ls.extra[fmt.Sprintf("keys$%d", ord)] = &Value{K: VScalar, SpecKind: "seq", S: keys, Len: n, T: u.Key()}
		ls.extra[fmt.Sprintf("pos$%d", ord)] = &Value{K: VScalar, SpecKind: "mmap", S: posm, T: types.Typ[types.Int]}
		ls.extra[fmt.Sprintf("dom$%d", ord)] = &Value{K: VScalar, SpecKind: "set", S: dom0, T: types.Typ[types.Bool]}
		// unchanged$k: "the ranged map still has the entries it had at loop entry", for invariants of loops
		// that fill another map of the same type (the havoc is per map *type*, so without such an invariant
		// what is known about the ranged map would be lost)
		{
			cls := mapClass(u)
			type leafSnap struct {
				class string
				srt   *Sort
				pre   *Term
			}
			var snaps []leafSnap
			add := func(class string, srt *Sort) {
				snaps = append(snaps, leafSnap{class, srt, st.loadLeaf(class, srt, rv.S)})
			}
			add(cls+"#dom", SArray(ks, SBool))
			add(cls+"#card", SInt)
			for _, l := range leavesOf(u.Elem()) {
				add(cls+"#val"+l.Path, SArray(ks, l.Sort))
			}
			ls.rangedSame = func(s *State) *Term {
				var cs []*Term
				for _, sn := range snaps {
					cs = append(cs, Eq(s.loadLeaf(sn.class, sn.srt, rv.S), sn.pre))
				}
				return Implies(Neq(rv.S, mkInt(0)), And(cs...))
			}
		}
		prepare = func(s *State) {
			key := scalar(Select(keys, cur(s)), u.Key())
			s.assume(typeConstraints(key)...)
			bindVar(s, x.Key, key)
			if x.Value != nil {
				// entry may have been deleted by an earlier iteration; Go then skips it. We model the
				// value read at iteration time and record that deleted entries are still visited.
				bindVar(s, x.Value, s.mapGet(u, rv.S, key.S))
			}
		}
	case *types.Chan:
		panic(unsupported("range over channel"))
	}
	if n == nil {
		panic(unsupported("range over " + typeName(rt)))
	}
	ls.extra[fmt.Sprintf("idx$%d", ord)] = nil // filled per state below
	cond := func(s *State) *Term { return Lt(cur(s), n) }
	// key variable (x.Key) is also visible to invariants as the cursor
	extraHavoc = func(s *State) {
		c := mkVar(freshName(fmt.Sprintf("idx$%d", ord)), SInt)
		s.vars[cursor] = scalar(c, types.Typ[types.Int])
		s.assume(Le(mkInt(0), c), Le(c, n))

		if x.Key != nil && x.Tok == token.DEFINE {
			if id, ok := x.Key.(*ast.Ident); ok && id.Name != "_" {
				if _, isMap := rt.Underlying().(*types.Map); !isMap {
					if o, ok := fr.info.Defs[id].(*types.Var); ok && o != nil {
						s.vars[o] = s.vars[cursor]
					}
				}
			}
		}
	}
	delete(ls.extra, fmt.Sprintf("idx$%d", ord))
	// bind key var for the init check too
	if x.Key != nil && x.Tok == token.DEFINE {
		if id, ok := x.Key.(*ast.Ident); ok && id.Name != "_" {
			if _, isMap := rt.Underlying().(*types.Map); !isMap {
				if o, ok := fr.info.Defs[id].(*types.Var); ok && o != nil {
					st.vars[o] = st.vars[cursor]
				}
			}
		}
	}
	wrappedPost := func(s *State) []Outcome {
		o := post(s)
		// keep the key variable in sync for the step check
		if x.Key != nil && x.Tok == token.DEFINE {
			if id, ok := x.Key.(*ast.Ident); ok && id.Name != "_" {
				if _, isMap := rt.Underlying().(*types.Map); !isMap {
					if ov, ok := fr.info.Defs[id].(*types.Var); ok && ov != nil {
						s.vars[ov] = s.vars[cursor]
					}
				}
			}
		}
		return o
	}
	if ls.decr == nil {
		// range loops terminate: implicit measure n - cursor
	}
	// the names of enclosing range loops (keys$k, pos$k, dom$k, range$k) stay visible in nested loops
	for k, v := range fr.outerExtras {
		if _, own := ls.extra[k]; !own {
			ls.extra[k] = v
		}
	}
	saved := fr.outerExtras
	merged := map[string]*Value{}
	for k, v := range ls.extra {
		merged[k] = v
	}
	fr.outerExtras = merged
	outs := fr.loopCore(st, x, label, scan, ls, cond, prepare, x.Body, wrappedPost, extraHavoc)
	fr.outerExtras = saved
	return outs
}

var _ = strings.HasPrefix

// writesRanged: does the body of a range statement assign to an element of, or delete from, the
// expression it ranges over (compared syntactically)?
func writesRanged(x *ast.RangeStmt) bool {
	target := exprString(x.X)
	found := false
	ast.Inspect(x.Body, func(n ast.Node) bool {
		switch y := n.(type) {
		case *ast.AssignStmt:
			for _, l := range y.Lhs {
				if ix, ok := unparen(l).(*ast.IndexExpr); ok && exprString(ix.X) == target {
					found = true
				}
			}
		case *ast.IncDecStmt:
			if ix, ok := unparen(y.X).(*ast.IndexExpr); ok && exprString(ix.X) == target {
				found = true
			}
		case *ast.CallExpr:
			if id, ok := unparen(y.Fun).(*ast.Ident); ok && id.Name == "delete" && len(y.Args) == 2 && exprString(y.Args[0]) == target {
				found = true
			}
		}
		return true
	})
	return found
}

// sortOfClassName derives the element sort of a heap class from its name when the class was only named
// (through allof("...") in a callee's modifies clause) before anything of that class was read or written:
// elem<T> for the basic element types.
func sortOfClassName(c string) *Sort {
	if strings.HasPrefix(c, "elem<") && strings.HasSuffix(c, ">") {
		switch c[5 : len(c)-1] {
		case "string":
			return SArray(SInt, SString)
		case "bool":
			return SArray(SInt, SBool)
		case "int", "int8", "int16", "int32", "int64", "uint", "uint8", "uint16", "uint32", "uint64", "byte", "rune", "uintptr":
			return SArray(SInt, SInt)
		}
	}
	return nil
}
