package main

// Calls: conversions, builtins, library models, contracts at call sites, inlining.

import (
	"go/constant"
	"runtime"
	"fmt"
	"go/ast"
	"go/token"
	"go/types"
	"math/big"
	"sort"
	"strings"
)

func (fr *frame) evalCall(st *State, call *ast.CallExpr) []*Value {
	// conversion?
	if tv, ok := fr.info.Types[call.Fun]; ok && tv.IsType() {
		return []*Value{fr.convert(st, fr.eval(st, call.Args[0]), fr.typeOf(call.Args[0]), tv.Type)}
	}
	fun := unparen(call.Fun)
	// builtin?
	if id, ok := fun.(*ast.Ident); ok {
		if b, ok := fr.info.ObjectOf(id).(*types.Builtin); ok {
			return fr.evalBuiltin(st, call, b.Name())
		}
	}
	// lock operations and other syntactic models
	if sel, ok := fun.(*ast.SelectorExpr); ok {
		if vs, handled := fr.syntacticModel(st, call, sel); handled {
			return vs
		}
	}
	// resolve callee
	var fn *types.Func
	var recv *Value
	var fval *Value
	switch f := fun.(type) {
	case *ast.Ident:
		switch o := fr.info.ObjectOf(f).(type) {
		case *types.Func:
			fn = o
		case *types.Var:
			// call of a function-typed variable
			if v, ok := st.vars[o]; ok {
				fval = v
			} else {
				return fr.callFuncVar(st, call, o, nil)
			}
		}
	case *ast.SelectorExpr:
		if sel, ok := fr.info.Selections[f]; ok {
			switch sel.Kind() {
			case types.MethodVal:
				fn = sel.Obj().(*types.Func)
				recv = fr.methodRecv(st, f, sel)
				// contract keyed by the static (named interface) receiver type takes precedence
				if n, ok := sel.Recv().(*types.Named); ok {
					if _, isIface := n.Underlying().(*types.Interface); isIface && n.Obj().Pkg() != nil {
						if c := fr.fc.reg.contracts[n.Obj().Pkg().Path()+"."+n.Obj().Name()+"."+fn.Name()]; c != nil {
							sig := fn.Type().(*types.Signature)
							args := fr.evalArgs(st, call, sig)
							return fr.applyContractSig(st, call, n.Obj().Name()+"."+fn.Name(), sig, fr.fc.reg.pkgs[n.Obj().Pkg().Path()], c, recv, args)
						}
					}
				}
			case types.FieldVal:
				// call of a function-typed field
				fv := fr.eval(st, f)
				if fv.K == VFunc {
					fval = fv
				} else {
					return fr.callFuncVar(st, call, sel.Obj().(*types.Var), fv)
				}
			}
		} else {
			switch o := fr.info.ObjectOf(f.Sel).(type) {
			case *types.Func:
				fn = o
			case *types.Var:
				return fr.callFuncVar(st, call, o, nil)
			}
		}
	case *ast.FuncLit:
		fval = fr.eval(st, f)
	default:
		fv := fr.eval(st, fun)
		if fv.K == VFunc {
			fval = fv
		}
	}
	if fval != nil {
		if fval.K == VFunc && fval.Fn != nil {
			if fval.Fn.Fn != nil {
				fn, recv = fval.Fn.Fn, fval.Fn.Recv
			} else if lit, ok := fval.Fn.Lit.(*ast.FuncLit); ok {
				args := fr.evalArgs(st, call, fr.typeOf(lit).(*types.Signature))
				res := fr.callLiteral(st, fval, lit, args)
				// `ghost at call <local>`: a call through a local that holds a function literal
				if id, ok := unparen(call.Fun).(*ast.Ident); ok {
					fr.fc.ghostHook(st, fr, call, id.Name, nil)
				}
				return res
			}
		}
		if fn == nil {
			// unknown function value: contract by declared type / variable
			return fr.callUnknownFuncValue(st, call, fval)
		}
	}
	if fn == nil {
		panic(unsupported("call of " + exprString(call.Fun)))
	}
	sig := fn.Type().(*types.Signature)
	if fn.Pkg() == nil && fn.Name() == "Error" {
		// error.Error(): the message text is not modelled
		return fr.opaqueResults(st, sig, "errmsg")
	}
	if fr.fc.reg.isNoEffect(fn.FullName()) {
		// dropped call: evaluate the arguments (they may contain checked operations), pack nothing
		for _, a := range call.Args {
			fr.eval(st, a)
		}
		fr.fc.reg.dropped[fn.FullName()]++
		return fr.opaqueResults(st, sig, "dropped")
	}
	args := fr.evalArgs(st, call, sig)
	return fr.callFunc(st, call, fn, recv, args)
}

func exprString(e ast.Expr) string {
	switch x := e.(type) {
	case *ast.Ident:
		return x.Name
	case *ast.SelectorExpr:
		return exprString(x.X) + "." + x.Sel.Name
	case *ast.CallExpr:
		return exprString(x.Fun) + "(...)"
	case *ast.StarExpr:
		return "*" + exprString(x.X)
	case *ast.IndexExpr:
		return exprString(x.X) + "[...]"
	case *ast.ParenExpr:
		return "(" + exprString(x.X) + ")"
	}
	return fmt.Sprintf("%T", e)
}

// methodRecv evaluates the receiver of a method call, following embedded-field paths.
func (fr *frame) methodRecv(st *State, f *ast.SelectorExpr, sel *types.Selection) *Value {
	idx := sel.Index()
	recvT := sel.Obj().Type().(*types.Signature).Recv().Type()
	_, wantPtr := recvT.Underlying().(*types.Pointer)
	if _, isIface := recvT.Underlying().(*types.Interface); isIface {
		wantPtr = false
	}
	if len(idx) == 1 {
		bt := fr.typeOf(f.X)
		_, isPtr := bt.Underlying().(*types.Pointer)
		if wantPtr && !isPtr {
			// addressable value receiver: &x
			lv := fr.lvalueOf(st, f.X)
			if lv == nil {
				panic(unsupported("pointer method on non-addressable value"))
			}
			if lv.kind == lvHeap && lv.prefix == structClass(lv.T) {
				return scalar(lv.ref, types.NewPointer(bt))
			}
			return &Value{K: VScalar, T: types.NewPointer(bt), S: aliasAddr(st, lv), Alias: lv}
		}
		v := fr.eval(st, f.X)
		if !wantPtr && isPtr {
			if _, isIface := recvT.Underlying().(*types.Interface); !isIface {
				lv := fr.derefLV(st, v, bt, "safe.nil", fr.ords[f])
				return st.load(lv)
			}
		}
		return v
	}
	// promoted method through embedded fields
	t := fr.typeOf(f.X)
	var lv *lvalue
	var val *Value
	if l := fr.lvalueOf(st, f.X); l != nil && l.kind != lvBlank {
		lv = l
	} else {
		val = fr.eval(st, f.X)
	}
	for _, i := range idx[:len(idx)-1] {
		if pt, isPtr := t.Underlying().(*types.Pointer); isPtr {
			if val == nil {
				val = st.load(lv)
			}
			lv = fr.derefLV(st, val, t, "safe.nil", fr.ords[f])
			val = nil
			t = pt.Elem()
		}
		stt := t.Underlying().(*types.Struct)
		if lv != nil {
			lv = lv.field(stt, i)
		} else {
			val = val.F[i]
		}
		t = stt.Field(i).Type()
	}
	_, isPtr := t.Underlying().(*types.Pointer)
	_, isIface := t.Underlying().(*types.Interface)
	if val == nil && (isPtr || isIface || !wantPtr) {
		val = st.load(lv)
	}
	switch {
	case isIface:
		return val
	case isPtr && wantPtr:
		return val
	case isPtr && !wantPtr:
		return st.load(fr.derefLV(st, val, t, "safe.nil", fr.ords[f]))
	case !isPtr && wantPtr:
		if lv == nil {
			panic(unsupported("pointer method on embedded r-value"))
		}
		return &Value{K: VScalar, T: types.NewPointer(t), S: aliasAddr(st, lv), Alias: lv}
	}
	return val
}

func (fr *frame) evalArgs(st *State, call *ast.CallExpr, sig *types.Signature) []*Value {
	var args []*Value
	np := sig.Params().Len()
	// f(g()) with multi-value g
	if len(call.Args) == 1 && np > 1 {
		v := fr.eval(st, call.Args[0])
		if v.K == VTuple {
			for i, x := range v.F {
				args = append(args, fr.coerce(st, x, sig.Params().At(i).Type()))
			}
			return args
		}
	}
	for i, a := range call.Args {
		var pt types.Type
		if sig.Variadic() && i >= np-1 {
			if call.Ellipsis.IsValid() {
				pt = sig.Params().At(np - 1).Type()
			} else {
				pt = sig.Params().At(np - 1).Type().(*types.Slice).Elem()
			}
		} else if i < np {
			pt = sig.Params().At(i).Type()
		}
		args = append(args, fr.coerce(st, fr.evalIn(st, a, pt), pt))
	}
	if sig.Variadic() && !call.Ellipsis.IsValid() {
		// pack the variadic tail into a slice
		fixed := args[:np-1]
		tail := args[np-1:]
		st0 := sig.Params().At(np - 1).Type().(*types.Slice)
		var sv *Value
		if len(tail) == 0 {
			sv = zeroValue(st0)
		} else {
			r := st.newRef("varargs")
			for i, x := range tail {
				st.store(&lvalue{kind: lvElem, T: st0.Elem(), ref: r, idx: mkInt(int64(i)), prefix: elemClass(st0.Elem())}, x)
			}
			sv = &Value{K: VSlice, T: st0, Arr: r, Len: mkInt(int64(len(tail)))}
		}
		args = append(append([]*Value(nil), fixed...), sv)
	}
	return args
}

// ---- conversions ----

func (fr *frame) convert(st *State, v *Value, from, to types.Type) *Value {
	if _, isIface := to.Underlying().(*types.Interface); isIface {
		return fr.coerce(st, v, to)
	}
	fs, fok := scalarSort(from)
	ts, tok := scalarSort(to)
	if fok && tok {
		switch {
		case fs == SInt && ts == SInt:
			return scalar(convertInt(v.S, from, to), to)
		case fs == SInt && ts == SReal:
			return scalar(toReal(v.S), to)
		case fs == SReal && ts == SInt:
			fr.fc.reg.assumptions["float64 modelled as real numbers (rounding and overflow ignored)"] = true
			// truncation toward zero
			fl := mkApp("to_int", SInt, v.S)
			return scalar(Ite(mkApp(">=", SBool, v.S, mkApp("0.0", SReal)), fl, Neg(mkApp("to_int", SInt, mkApp("-", SReal, v.S)))), to)
		case fs == ts:
			c := *v
			c.T = to
			return &c
		case fs == SInt && ts == SString:
			return scalar(mkUF("string.ofRune", SString, v.S), to)
		}
	}
	// []byte(s), string(b)
	if sl, ok := to.Underlying().(*types.Slice); ok && fok && fs == SString {
		if b, ok := sl.Elem().Underlying().(*types.Basic); ok && b.Kind() == types.Uint8 {
			r := st.newRef("bytes")
			cls := elemClass(sl.Elem())
			as := SArray(SInt, SInt)
			noteClass(cls, as, false)
			h := st.heapArr(cls, as)
			st.heap[cls] = Store(h, r, mkUF("bytesOf", as, v.S))
			// string([]byte(s)) == s
			st.assume(Eq(mkUF("stringOf", SString, mkUF("bytesOf", as, v.S), StrLen(v.S)), v.S))
			return &Value{K: VSlice, T: to, Arr: r, Len: StrLen(v.S)}
		}
	}
	if sl, ok := from.Underlying().(*types.Slice); ok && tok && ts == SString {
		if b, ok := sl.Elem().Underlying().(*types.Basic); ok && b.Kind() == types.Uint8 {
			cls := elemClass(sl.Elem())
			as := SArray(SInt, SInt)
			noteClass(cls, as, false)
			s := mkUF("stringOf", SString, Select(st.heapArr(cls, as), v.Arr), v.Len)
			st.assume(Eq(StrLen(s), v.Len))
			return scalar(s, to)
		}
	}
	if types.Identical(from.Underlying(), to.Underlying()) {
		c := *v
		c.T = to
		return &c
	}
	panic(unsupported("conversion " + typeName(from) + " -> " + typeName(to)))
}

func convertInt(x *Term, from, to types.Type) *Term {
	flo, fhi, ok1 := intRange(from)
	tlo, thi, ok2 := intRange(to)
	if !ok1 || !ok2 {
		return x // time.Time <-> ints etc.
	}
	if tlo.Int.Cmp(flo.Int) <= 0 && thi.Int.Cmp(fhi.Int) >= 0 {
		return x // widening
	}
	if x.Kind == KInt && x.Int.Cmp(tlo.Int) >= 0 && x.Int.Cmp(thi.Int) <= 0 {
		return x
	}
	// wrap-around: ((x - lo) mod 2^w) + lo
	w := new(big.Int).Add(new(big.Int).Sub(thi.Int, tlo.Int), big.NewInt(1))
	return Add(EMod(Sub(x, tlo), mkBig(w)), tlo)
}

// ---- builtins ----

func (fr *frame) evalBuiltin(st *State, call *ast.CallExpr, name string) []*Value {
	switch name {
	case "len", "cap":
		v := fr.eval(st, call.Args[0])
		t := fr.typeOf(call.Args[0])
		if name == "cap" {
			return []*Value{scalar(v.capTerm(), types.Typ[types.Int])}
		}
		return []*Value{scalar(fr.lenOf(st, v, t), types.Typ[types.Int])}
	case "panic":
		fr.fc.panicAt(st, fr, call)
		return nil
	case "new":
		t := fr.typeOf(call.Args[0])
		r := st.newRef("new:" + shortTypeName(t))
		if _, isStruct := t.Underlying().(*types.Struct); isStruct {
			st.storeObj(structClass(t), r, zeroValue(t))
		} else {
			st.storeObj("box<"+typeName(t)+">", r, zeroValue(t))
		}
		return []*Value{scalar(r, types.NewPointer(t))}
	case "make":
		t := fr.typeOf(call.Args[0])
		switch u := t.Underlying().(type) {
		case *types.Map:
			return []*Value{scalar(st.newMap(u), t)}
		case *types.Slice:
			n := fr.eval(st, call.Args[1]).S
			capT := n
			if len(call.Args) > 2 {
				capT = fr.eval(st, call.Args[2]).S
			}
			fr.fc.oblige(st, fr, "safe", fmt.Sprintf("safe.make#%d", fr.callOrd[call]), And(Ge(n, mkInt(0)), Ge(capT, n)))
			r := st.newRef("make")
			// zeroed contents
			for _, l := range leavesOf(u.Elem()) {
				cls := elemClass(u.Elem()) + l.Path
				as := SArray(SInt, l.Sort)
				noteClass(cls, as, false)
				st.heap[cls] = Store(st.heapArr(cls, as), r, ConstArray(as, zeroTerm(l.Sort)))
			}
			return []*Value{{K: VSlice, T: t, Arr: r, Len: n, Cap: capT}}
		case *types.Chan:
			return []*Value{scalar(st.newRef("chan"), t)}
		}
	case "append":
		t := fr.typeOf(call.Args[0])
		sl := t.Underlying().(*types.Slice)
		base := fr.eval(st, call.Args[0])
		if call.Ellipsis.IsValid() {
			other := fr.eval(st, call.Args[1])
			return []*Value{fr.appendSlice(st, sl, base, other)}
		}
		var elems []*Value
		for _, a := range call.Args[1:] {
			elems = append(elems, fr.coerce(st, fr.evalIn(st, a, sl.Elem()), sl.Elem()))
		}
		return []*Value{fr.appendElems(st, sl, base, elems, t)}
	case "delete":
		m := fr.eval(st, call.Args[0])
		k := fr.eval(st, call.Args[1])
		mt := fr.typeOf(call.Args[0]).Underlying().(*types.Map)
		st.mapDelete(mt, m.S, keyTerm(k))
		return nil
	case "min", "max":
		a := fr.eval(st, call.Args[0])
		for _, x := range call.Args[1:] {
			b := fr.eval(st, x)
			if name == "min" {
				a = scalar(Ite(Le(a.S, b.S), a.S, b.S), a.T)
			} else {
				a = scalar(Ite(Ge(a.S, b.S), a.S, b.S), a.T)
			}
		}
		return []*Value{a}
	case "recover":
		// value of recover(): nil unless panicking; handled by the defer machinery
		return []*Value{fr.fc.recoverValue(st, fr.typeOf(call))}
	case "copy":
		// copy(dst, src): the first min(len(dst), len(src)) elements of dst's backing array take src's values
		// (dst and src are distinct arrays or the same array at the same offset: slices carry no offset here)
		dt, ok1 := fr.typeOf(call.Args[0]).Underlying().(*types.Slice)
		_, ok2 := fr.typeOf(call.Args[1]).Underlying().(*types.Slice)
		if !ok1 || !ok2 {
			panic(unsupported("copy() from a string"))
		}
		dst := fr.eval(st, call.Args[0])
		src := fr.eval(st, call.Args[1])
		n := Ite(Le(dst.Len, src.Len), dst.Len, src.Len)
		for _, l := range leavesOf(dt.Elem()) {
			cls := elemClass(dt.Elem()) + l.Path
			as := SArray(SInt, l.Sort)
			noteClass(cls, as, false)
			h := st.heapArr(cls, as)
			fresh := mkVar(freshName("copy"), as)
			k := mkBVar(freshName("k"), SInt)
			st.assume(Forall([]*Term{k}, Eq(Select(fresh, k), Ite(And(Le(mkInt(0), k), Lt(k, n)), Select(Select(h, src.Arr), k), Select(Select(h, dst.Arr), k)))))
			st.heap[cls] = Store(h, dst.Arr, fresh)
		}
		return []*Value{scalar(n, types.Typ[types.Int])}
	case "close":
		fr.eval(st, call.Args[0])
		return nil
	}
	panic(unsupported("builtin " + name))
}

func (fr *frame) lenOf(st *State, v *Value, t types.Type) *Term {
	switch u := t.Underlying().(type) {
	case *types.Slice:
		return v.Len
	case *types.Array:
		return mkInt(u.Len())
	case *types.Basic:
		return StrLen(v.S)
	case *types.Map:
		// finite-set fact: a map of cardinality 0 has no keys (and cardinalities are non-negative)
		card := st.mapCard(u, v.S)
		k := mkBVar(freshName("k"), keySort(u))
		st.assume(Ge(card, mkInt(0)), Implies(And(Neq(v.S, mkInt(0)), Eq(card, mkInt(0))), Forall([]*Term{k}, Not(Select(st.mapDom(u, v.S), k)))))
		return Ite(Eq(v.S, mkInt(0)), mkInt(0), card)
	case *types.Chan:
		n := mkVar(freshName("chanlen"), SInt)
		st.assume(Ge(n, mkInt(0)))
		return n
	}
	panic(unsupported("len of " + typeName(t)))
}

// appendElems models append(base, elems...). With spare capacity (len+k <= cap) the elements are
// written into base's backing array (aliasing!); otherwise a fresh array holding a copy is
// allocated. ASSUMPTION: a grown slice has no spare capacity (cap == new len); Go's real growth
// policy may leave some, which only matters for later in-place appends through that slice.
func (fr *frame) appendElems(st *State, sl *types.Slice, base *Value, elems []*Value, t types.Type) *Value {
	fr.fc.reg.assumptions["append: in place when len+k <= cap, else a fresh array with cap == new len (no spare capacity after growth)"] = true
	k := mkInt(int64(len(elems)))
	newLen := Add(base.Len, k)
	inPlace := And(Neq(base.Arr, mkInt(0)), Le(newLen, base.capTerm()))
	if len(elems) == 0 {
		return base
	}
	r := st.newRef("append")
	arr := Ite(inPlace, base.Arr, r)
	for _, l := range leavesOf(sl.Elem()) {
		cls := elemClass(sl.Elem()) + l.Path
		as := SArray(SInt, l.Sort)
		noteClass(cls, as, false)
		h := st.heapArr(cls, as)
		// the fresh array starts as a copy of base's contents
		st.heap[cls] = Store(h, r, Select(h, base.Arr))
	}
	n := base.Len
	for _, e := range elems {
		st.store(&lvalue{kind: lvElem, T: sl.Elem(), ref: arr, idx: n, prefix: elemClass(sl.Elem())}, e)
		n = Add(n, mkInt(1))
	}
	return &Value{K: VSlice, T: t, Arr: arr, Len: newLen, Cap: Ite(inPlace, base.capTerm(), newLen)}
}

func (fr *frame) appendSlice(st *State, sl *types.Slice, base, other *Value) *Value {
	fr.fc.reg.assumptions["append returns a fresh backing array (capacity aliasing not modelled)"] = true
	r := st.newRef("append")
	for _, l := range leavesOf(sl.Elem()) {
		cls := elemClass(sl.Elem()) + l.Path
		as := SArray(SInt, l.Sort)
		noteClass(cls, as, false)
		h := st.heapArr(cls, as)
		fresh := mkVar(freshName("app"), as)
		k := mkBVar(freshName("k"), SInt)
		st.assume(Forall([]*Term{k}, And(
			Implies(And(Le(mkInt(0), k), Lt(k, base.Len)), Eq(Select(fresh, k), Select(Select(h, base.Arr), k))),
			Implies(And(Le(base.Len, k), Lt(k, Add(base.Len, other.Len))), Eq(Select(fresh, k), Select(Select(h, other.Arr), Sub(k, base.Len)))))))
		st.heap[cls] = Store(h, r, fresh)
	}
	return &Value{K: VSlice, T: base.T, Arr: r, Len: Add(base.Len, other.Len), Cap: Add(base.Len, other.Len)}
}

// ---- syntactic models: locks, atomics ----

func (fr *frame) syntacticModel(st *State, call *ast.CallExpr, sel *ast.SelectorExpr) ([]*Value, bool) {
	s, ok := fr.info.Selections[sel]
	if ok && s.Kind() == types.MethodVal {
		fn := s.Obj().(*types.Func)
		full := fn.FullName()
		switch full {
		case "(*sync.Mutex).Lock", "(*sync.RWMutex).Lock", "(*sync.RWMutex).RLock":
			fr.lockOp(st, sel.X, true, full == "(*sync.RWMutex).RLock")
			return nil, true
		case "(*sync.Mutex).Unlock", "(*sync.RWMutex).Unlock", "(*sync.RWMutex).RUnlock":
			fr.lockOp(st, sel.X, false, full == "(*sync.RWMutex).RUnlock")
			return nil, true
		case "(*sync.Once).Do":
			// sync.Once: the function runs iff this is the first Do on this Once (ghost flag <location>#once)
			lv := fr.lvalueOf(st, sel.X)
			if lv == nil || (lv.kind != lvHeap && lv.kind != lvElem) {
				panic(unsupported("sync.Once that is not a heap field"))
			}
			cls := lv.prefix + "#once"
			done := st.loadLeaf(cls, SBool, lv.ref)
			fv := fr.eval(st, call.Args[0])
			sub := st.clone()
			sub.assume(Not(done))
			if !sub.dead {
				if fv.K == VFunc && fv.Fn != nil && fv.Fn.Fn != nil {
					fr.callFunc(sub, call, fv.Fn.Fn, fv.Fn.Recv, nil)
				} else if fv.K == VFunc && fv.Fn != nil && fv.Fn.Lit != nil {
					fr.callLiteral(sub, fv, fv.Fn.Lit.(*ast.FuncLit), nil)
				} else {
					// function value of unknown identity: contract by its type / name
					fr.callOnceArg(sub, call, fv)
				}
				fr.absorbConditional(st, sub, Not(done))
			}
			st.storeLeaf(cls, SBool, lv.ref, TTrue)
			fr.fc.reg.trustedUsed["sync.Once runs its argument exactly once (ghost flag per Once)"] = true
			return nil, true
		case "(*sync.Map).Range":
			// Range with a callback that stops at the first entry (every return is `return false`): the
			// callback runs exactly once, on some present entry, iff the map is not empty. This is the
			// "is the map empty / count up to one" idiom; callbacks that may continue are outside the subset.
			lit, isLit := unparen(call.Args[0]).(*ast.FuncLit)
			if !isLit || !alwaysReturnsFalse(lit) {
				panic(unsupported("sync.Map.Range with a callback that may continue"))
			}
			recv := fr.methodRecv(st, sel, s)
			inner := SArray(SInt, SBool)
			hasArr := st.globalTerm("ghost:.smHas", SArray(SInt, SArray(SInt, inner)))
			typArr := st.globalTerm("ghost:.smTyp", SArray(SInt, SArray(SInt, SArray(SInt, SInt))))
			valArr := st.globalTerm("ghost:.smVal", SArray(SInt, SArray(SInt, SArray(SInt, SInt))))
			noteClass("ghost:.smHas", SArray(SInt, SArray(SInt, inner)), true)
			noteClass("ghost:.smTyp", SArray(SInt, SArray(SInt, SArray(SInt, SInt))), true)
			noteClass("ghost:.smVal", SArray(SInt, SArray(SInt, SArray(SInt, SInt))), true)
			nonEmpty := mkVar(freshName("rangeNonEmpty"), SBool)
			t0 := mkVar(freshName("rangeKeyTyp"), SInt)
			k0 := mkVar(freshName("rangeKeyVal"), SInt)
			bt := mkBVar(freshName("t"), SInt)
			bk := mkBVar(freshName("k"), SInt)
			st.assume(
				Implies(nonEmpty, Select(Select(Select(hasArr, recv.S), t0), k0)),
				Implies(Not(nonEmpty), Forall([]*Term{bt, bk}, Not(Select(Select(Select(hasArr, recv.S), bt), bk)))),
			)
			sub := st.clone()
			sub.assume(nonEmpty)
			if !sub.dead {
				key := &Value{K: VIface, T: types.NewInterfaceType(nil, nil), Typ: t0, S: k0}
				val := &Value{K: VIface, T: types.NewInterfaceType(nil, nil), Typ: Select(Select(Select(typArr, recv.S), t0), k0), S: Select(Select(Select(valArr, recv.S), t0), k0)}
				fv := fr.eval(sub, lit)
				fr.callLiteral(sub, fv, lit, []*Value{key, val})
				fr.absorbConditional(st, sub, nonEmpty)
			}
			fr.fc.reg.trustedUsed["sync.Map.Range visits present entries only; a callback that returns false runs at most once"] = true
			return nil, true
		case "(*sync/atomic.Value).Store", "(*sync/atomic.Value).Load":
			// atomic.Value is a one-field box {v any}; Store/Load are linearizable accesses to it
			lv := fr.lvalueOf(st, sel.X)
			if lv == nil {
				panic(unsupported("atomic.Value that is not addressable"))
			}
			if _, isPtr := lv.T.Underlying().(*types.Pointer); isPtr {
				lv = fr.derefLV(st, st.load(lv), lv.T, "safe.nil", fr.ords[sel])
			}
			stt := lv.T.Underlying().(*types.Struct)
			flv := lv.field(stt, 0)
			fr.fc.reg.trustedUsed["sync/atomic.Value Store/Load are linearizable accesses to a single cell"] = true
			if fn.Name() == "Store" {
				v := fr.coerce(st, fr.eval(st, call.Args[0]), flv.T)
				fr.fc.oblige(st, fr, "safe", fmt.Sprintf("safe.atomicstore#%d", fr.callOrd[call]), Neq(v.Typ, mkInt(0)))
				st.store(flv, v)
				return nil, true
			}
			return []*Value{st.load(flv)}, true
		}
		return nil, false
	}
	// package functions taking addresses
	if fn, ok := fr.info.ObjectOf(sel.Sel).(*types.Func); ok && fn.Pkg() != nil && fn.Pkg().Path() == "sync/atomic" {
		switch fn.Name() {
		case "AddUint64", "AddInt64", "AddInt32", "AddUint32":
			lv := fr.addrArgLV(st, call.Args[0])
			d := fr.eval(st, call.Args[1])
			old := st.load(lv)
			nv := scalar(Add(old.S, d.S), lv.T)
			if c := fr.fc.reg.contractFor(fn); c != nil {
				_ = c
			}
			st.store(lv, nv)
			fr.fc.reg.trustedUsed["sync/atomic."+fn.Name()+" (atomic read-modify-write; wrap-around ignored)"] = true
			fr.fc.ghostHook(st, fr, call, "atomic."+fn.Name(), map[string]*Value{"old": old, "new": nv})
			return []*Value{nv}, true
		case "LoadUint64", "LoadInt64", "LoadInt32", "LoadUint32":
			lv := fr.addrArgLV(st, call.Args[0])
			return []*Value{st.load(lv)}, true
		case "StoreUint64", "StoreInt64", "StoreInt32", "StoreUint32":
			lv := fr.addrArgLV(st, call.Args[0])
			st.store(lv, fr.eval(st, call.Args[1]))
			return nil, true
		}
	}
	return nil, false
}

func (fr *frame) addrArgLV(st *State, e ast.Expr) *lvalue {
	if u, ok := unparen(e).(*ast.UnaryExpr); ok && u.Op == token.AND {
		if lv := fr.lvalueOf(st, u.X); lv != nil {
			return lv
		}
	}
	v := fr.eval(st, e)
	if v.Alias != nil {
		return v.Alias
	}
	return fr.derefLV(st, v, fr.typeOf(e), "safe.nil", 0)
}

// ---- calls to named functions ----

func (fr *frame) callFunc(st *State, call *ast.CallExpr, fn *types.Func, recv *Value, args []*Value) []*Value {
	fc := fr.fc
	full := fn.FullName()
	if fc.reg.isNoEffect(full) {
		fc.reg.dropped[full]++
		return fr.opaqueResults(st, fn.Type().(*types.Signature), "dropped")
	}
	// interface method: interface contract
	sig := fn.Type().(*types.Signature)
	if c := fc.reg.contractFor(fn); c != nil && !c.Inline && c.Flags["otherwise"] == "" {
		return fr.applyContract(st, call, fn, c, recv, args)
	}
	if vs, ok := fr.builtinModel(st, call, fn, recv, args); ok {
		return vs
	}
	if r := sig.Recv(); r != nil && recv != nil && recv.K == VIface {
		if _, isIface := r.Type().Underlying().(*types.Interface); isIface {
			return fr.dispatchIface(st, call, fn, recv, args)
		}
	}
	// inline same-module callee
	if decl := fc.reg.funcDecls[fn.FullName()]; decl != nil && decl.Body != nil {
		return fr.inlineCall(st, call, fn, decl, recv, args)
	}
	// a library function without model whose arguments are all values (numbers, strings, booleans - nothing it
	// could write through) and that belongs to a value-computing standard package: its results are arbitrary,
	// modelled state is untouched (listed as an assumption). Without this, a harmless edit that formats a log
	// text with strings.ToUpper or reads time.Now() would detach the contract of the function it is made in.
	if fn.Pkg() != nil && !strings.HasPrefix(fn.Pkg().Path(), modulePath) && valueOnlyCall(sig, recv, args) && pureLibrary(fn) {
		fc.reg.assumptions["call of "+full+" (no model): arguments are values, the results are arbitrary, modelled state is untouched"] = true
		return fr.opaqueResults(st, sig, "lib")
	}
	panic(unsupported("call of " + full + " (no contract, no model, not inlinable)"))
}

func pureLibrary(fn *types.Func) bool {
	switch fn.Pkg().Path() {
	case "strings", "strconv", "math", "math/bits", "unicode", "unicode/utf8", "path", "path/filepath", "time", "net/url", "html", "regexp/syntax":
		return true
	case "fmt":
		return strings.HasPrefix(fn.Name(), "Sprint") || fn.Name() == "Errorf"
	case "errors":
		return fn.Name() == "New"
	case "os":
		return fn.Name() == "Getenv" || fn.Name() == "Getpid" || fn.Name() == "Hostname"
	case "runtime":
		return fn.Name() == "NumCPU" || fn.Name() == "NumGoroutine" || fn.Name() == "GOMAXPROCS"
	}
	return false
}

func valueOnlyCall(sig *types.Signature, recv *Value, args []*Value) bool {
	isValue := func(t types.Type) bool {
		switch u := t.Underlying().(type) {
		case *types.Basic:
			return true
		case *types.Struct:
			// time.Time, time.Duration-like value structs of the library itself
			_ = u
			if n, ok := t.(*types.Named); ok && n.Obj().Pkg() != nil && n.Obj().Pkg().Path() == "time" {
				return true
			}
		}
		return false
	}
	if r := sig.Recv(); r != nil && !isValue(r.Type()) {
		return false
	}
	for i := 0; i < sig.Params().Len(); i++ {
		t := sig.Params().At(i).Type()
		if sig.Variadic() && i == sig.Params().Len()-1 {
			t = t.(*types.Slice).Elem()
			if _, ok := t.Underlying().(*types.Interface); ok {
				// ...interface{} (fmt): the dynamic values must be values too
				for _, a := range args[min(i, len(args)):] {
					if a == nil || a.K != VIface && a.K != VScalar {
						return false
					}
				}
				continue
			}
		}
		if !isValue(t) {
			return false
		}
	}
	return true
}

func (fr *frame) opaqueResults(st *State, sig *types.Signature, base string) []*Value {
	var out []*Value
	for i := 0; i < sig.Results().Len(); i++ {
		v := freshValue(sig.Results().At(i).Type(), base)
		st.assume(typeConstraints(v)...)
		out = append(out, v)
	}
	return out
}

const maxInlineStmts = 60
const maxInlineDepth = 6

func countStmts(n ast.Node) int {
	c := 0
	ast.Inspect(n, func(x ast.Node) bool {
		if _, ok := x.(ast.Stmt); ok {
			c++
		}
		return true
	})
	return c
}

func (fr *frame) inlineCall(st *State, call *ast.CallExpr, fn *types.Func, decl *ast.FuncDecl, recv *Value, args []*Value) []*Value {
	fc := fr.fc
	full := fn.FullName()
	for _, s := range fc.inlineStack {
		if s == full {
			panic(unsupported("recursive call of " + full + " without contract"))
		}
	}
	if fr.depth >= maxInlineDepth {
		panic(unsupported("inlining depth exceeded at " + full))
	}
	if n := countStmts(decl.Body); n > maxInlineStmts {
		panic(unsupported(fmt.Sprintf("call of %s: no contract and too large to inline (%d statements)", full, n)))
	}
	pkg := fc.reg.declPkg[full]
	fc.reg.inlined[full] = true
	fc.inlineStack = append(fc.inlineStack, full)
	defer func() { fc.inlineStack = fc.inlineStack[:len(fc.inlineStack)-1] }()
	sig := fn.Type().(*types.Signature)
	nf := &frame{fc: fc, pkg: pkg, info: pkg.TypesInfo, fn: fn, sig: sig, depth: fr.depth + 1,
		prefix: fr.prefix + "inl:" + shortFuncName(fn) + "/"}
	nf.ords, nf.loopOrd, nf.litOrd, nf.callOrd = computeOrdinals(decl.Body, pkg.TypesInfo)
	if c := fc.reg.contractFor(fn); c != nil {
		nf.contract = c
	}
	sub := st.clone()
	nf.deferBase = len(sub.defers)
	nf.bindParams(sub, decl.Recv, decl.Type, sig, recv, args)
	outs := nf.execBlock(sub, decl.Body.List)
	var rets []*State
	for _, o := range outs {
		switch o.ctl {
		case cNormal:
			// fell off the end: implicit return
			ro := nf.doReturn(o.st, nil, nil)
			for _, r := range ro {
				rets = append(rets, r.st)
			}
		case cReturn:
			rets = append(rets, o.st)
		case cDead:
		default:
			panic("internal: break/continue escaped function body")
		}
	}
	merged := mergeMany(st, rets)
	if merged == nil {
		panic(unsupported("cannot merge return paths of inlined " + full))
	}
	res := merged.results
	merged.results = nil
	// drop callee locals
	*st = *merged
	return res
}

func shortFuncName(fn *types.Func) string {
	sig := fn.Type().(*types.Signature)
	if r := sig.Recv(); r != nil {
		return shortRecv(r.Type()) + "." + fn.Name()
	}
	return fn.Name()
}

// mergeMany joins several states that were forked from base.
func mergeMany(base *State, outs []*State) *State {
	var live []*State
	for _, s := range outs {
		if !s.dead {
			live = append(live, s)
		}
	}
	if len(live) == 0 {
		d := base.clone()
		d.dead = true
		d.assume(TFalse)
		return d
	}
	if len(live) == 1 {
		return live[0]
	}
	// guards: conjunction of what each path added to base
	guard := func(s *State) *Term {
		var ex []*Term
		for _, t := range s.pc {
			if !base.pcSet[t.id] {
				ex = append(ex, t)
			}
		}
		return And(ex...)
	}
	acc := live[len(live)-1]
	accGuard := guard(acc)
	for i := len(live) - 2; i >= 0; i-- {
		g := guard(live[i])
		m := mergeGuarded(base, g, live[i], accGuard, acc)
		if m == nil {
			return nil
		}
		acc = m
		accGuard = Or(g, accGuard)
	}
	return acc
}

// mergeGuarded merges a (guard ga) and b (guard gb, already possibly a merge) relative to base.
func mergeGuarded(base *State, ga *Term, a *State, gb *Term, b *State) *State {
	if len(a.defers) != len(b.defers) || len(a.held) != len(b.held) {
		return nil
	}
	for i := range a.defers {
		if a.defers[i] != b.defers[i] {
			return nil
		}
	}
	n := base.clone()
	n.defers, n.held = a.defers, a.held
	n.assume(Or(ga, gb))
	// facts of each branch beyond guards are already inside the guards (guards contain all extras)
	pick := func(va, vb *Value) *Value { return valueIte(ga, va, vb) }
	for k, va := range a.vars {
		if vb, ok := b.vars[k]; ok {
			n.vars[k] = pick(va, vb)
		}
	}
	for k := range n.vars {
		_, ina := a.vars[k]
		_, inb := b.vars[k]
		if !ina || !inb {
			delete(n.vars, k)
		}
	}
	keys := map[string]bool{}
	for k := range a.heap {
		keys[k] = true
	}
	for k := range b.heap {
		keys[k] = true
	}
	for _, k := range sortedKeys(keys) {
		ta, oka := a.heap[k]
		tb, okb := b.heap[k]
		if !oka {
			ta = initialHeapTerm(k, tb.Sort)
		}
		if !okb {
			tb = initialHeapTerm(k, ta.Sort)
		}
		n.heap[k] = Ite(ga, ta, tb)
	}
	aa, ab := a.alloc, b.alloc
	if aa != nil || ab != nil {
		if aa == nil {
			aa = mkVar("alloc0", SArray(SInt, SBool))
		}
		if ab == nil {
			ab = mkVar("alloc0", SArray(SInt, SBool))
		}
		n.alloc = Ite(ga, aa, ab)
	}
	if a.results != nil && b.results != nil {
		for i := range a.results {
			n.results = append(n.results, pick(a.results[i], b.results[i]))
		}
	}
	n.callCount = a.callCount
	return n
}

// bindParams binds receiver and parameters of a declaration in st.
func (fr *frame) bindParams(st *State, recvFL *ast.FieldList, ft *ast.FuncType, sig *types.Signature, recv *Value, args []*Value) {
	if recvFL != nil && len(recvFL.List) > 0 && len(recvFL.List[0].Names) > 0 {
		if o, ok := fr.info.Defs[recvFL.List[0].Names[0]].(*types.Var); ok && o != nil {
			st.vars[o] = recv
		}
	}
	i := 0
	for _, f := range ft.Params.List {
		if len(f.Names) == 0 {
			i++
			continue
		}
		for _, n := range f.Names {
			if o, ok := fr.info.Defs[n].(*types.Var); ok && o != nil && n.Name != "_" {
				st.vars[o] = args[i]
			}
			i++
		}
	}
	fr.resVars = nil
	if ft.Results != nil {
		for _, f := range ft.Results.List {
			for _, n := range f.Names {
				if o, ok := fr.info.Defs[n].(*types.Var); ok && o != nil {
					st.vars[o] = zeroValue(o.Type())
					fr.resVars = append(fr.resVars, o)
				}
			}
		}
	}
}

// callLiteral executes a function literal inline.
func (fr *frame) callLiteral(st *State, fv *Value, lit *ast.FuncLit, args []*Value) []*Value {
	fc := fr.fc
	sig := fr.typeOf(lit).(*types.Signature)
	nf := &frame{fc: fc, pkg: fr.pkg, info: fr.info, fn: fr.fn, sig: sig, depth: fr.depth + 1, prefix: fr.prefix + fmt.Sprintf("lit%d/", fr.litOrd[lit])}
	nf.ords, nf.loopOrd, nf.litOrd, nf.callOrd = computeOrdinals(lit.Body, fr.info)
	if fr.contract != nil && fr.contract.Closures != nil {
		if c := fr.contract.Closures[fr.litOrd[lit]]; c != nil {
			nf.contract = c
			if c.Flags["use"] == "contract" {
				// modular treatment of a literal that is called / deferred inside its own function: its
				// contract is applied here (it may mention the locals of the enclosing function) and its
				// body is verified as a unit of its own (props: "closure": k)
				if c.Flags == nil {
					c.Flags = map[string]string{}
				}
				c.Flags["locals"] = "true"
				return fr.applyContractSig(st, nil, fmt.Sprintf("%s$closure%d", shortFuncName(fr.fn), fr.litOrd[lit]), sig, fr.pkg, c, nil, args)
			}
		}
	}
	if nf.contract == nil {
		if fr.contract != nil {
			nf.hookContract = fr.contract
		} else {
			nf.hookContract = fr.hookContract
		}
	}
	if fr.depth >= maxInlineDepth {
		panic(unsupported("inlining depth exceeded in function literal"))
	}
	sub := st.clone()
	nf.deferBase = len(sub.defers)
	nf.bindParams(sub, nil, lit.Type, sig, nil, args)
	outs := nf.execBlock(sub, lit.Body.List)
	var rets []*State
	for _, o := range outs {
		switch o.ctl {
		case cNormal:
			for _, r := range nf.doReturn(o.st, nil, nil) {
				rets = append(rets, r.st)
			}
		case cReturn:
			rets = append(rets, o.st)
		case cDead:
		default:
			panic("internal: break/continue escaped literal body")
		}
	}
	merged := mergeMany(st, rets)
	if merged == nil {
		panic(unsupported("cannot merge return paths of function literal"))
	}
	res := merged.results
	merged.results = nil
	*st = *merged
	return res
}

// callFuncVar: call through a function-typed variable / field that has a contract keyed by its name.
func (fr *frame) callFuncVar(st *State, call *ast.CallExpr, v *types.Var, fv *Value) []*Value {
	fc := fr.fc
	sig := v.Type().Underlying().(*types.Signature)
	args := fr.evalArgs(st, call, sig)
	key := ""
	if v.Pkg() != nil {
		key = v.Pkg().Path() + "." + v.Name()
	}
	if c := fc.reg.contracts[key]; c != nil {
		return fr.applyContractSig(st, call, key, sig, fc.reg.pkgs[v.Pkg().Path()], c, nil, args)
	}
	// contract attached to the named function type: `func (f T) call(args) ...`
	if n, ok := v.Type().(*types.Named); ok {
		k2 := n.Obj().Pkg().Path() + "." + n.Obj().Name()
		for _, k := range []string{k2 + ".call", k2} {
			if c := fc.reg.contracts[k]; c != nil {
				return fr.applyContractSig(st, call, n.Obj().Name(), sig, fc.reg.pkgs[n.Obj().Pkg().Path()], c, fv, args)
			}
		}
	}
	panic(unsupported("call through function variable " + v.Name() + " without contract"))
}

func (fr *frame) callUnknownFuncValue(st *State, call *ast.CallExpr, fv *Value) []*Value {
	fc := fr.fc
	t := fr.typeOf(call.Fun)
	sig := t.Underlying().(*types.Signature)
	args := fr.evalArgs(st, call, sig)
	if n, ok := t.(*types.Named); ok {
		k2 := n.Obj().Pkg().Path() + "." + n.Obj().Name()
		for _, k := range []string{k2 + ".call", k2} {
			if c := fc.reg.contracts[k]; c != nil {
				return fr.applyContractSig(st, call, n.Obj().Name(), sig, fc.reg.pkgs[n.Obj().Pkg().Path()], c, fv, args)
			}
		}
	}
	// parameter / local of function type: contract keyed "<enclosing function key>#<name>"
	if id, ok := unparen(call.Fun).(*ast.Ident); ok && fr.fn != nil {
		if c := fc.reg.contracts[funcKey(fr.fn.Origin())+"#"+id.Name]; c != nil {
			return fr.applyContractSig(st, call, id.Name, sig, fr.pkg, c, fv, args)
		}
	}
	panic(unsupported("call of unknown function value " + exprString(call.Fun)))
}

func paramIndex(fr *frame, name string) int {
	for i := 0; i < fr.sig.Params().Len(); i++ {
		if fr.sig.Params().At(i).Name() == name {
			return i
		}
	}
	return 1 << 20
}

// ---- contracts at call sites ----

func (fr *frame) applyContract(st *State, call *ast.CallExpr, fn *types.Func, c *FuncContract, recv *Value, args []*Value) []*Value {
	pkg := fr.fc.reg.pkgs[fn.Pkg().Path()]
	if c.Trusted {
		fr.fc.reg.trustedUsed[funcKey(fn)+" (trusted contract)"] = true
	}
	fr.viaApplyContract = true
	return fr.applyContractSig(st, call, shortFuncName(fn), fn.Type().(*types.Signature), pkg, c, recv, args)
}

func (fr *frame) applyContractSig(st *State, call *ast.CallExpr, name string, sig *types.Signature, pkg interface{}, c *FuncContract, recv *Value, args []*Value) []*Value {
	fc := fr.fc
	defer func() {
		if r := recover(); r != nil {
			if _, isRT := r.(runtime.Error); isRT {
				panic(fmt.Sprintf("internal error while applying the contract of %s: %v", name, r))
			}
			panic(r)
		}
	}()
	p := fr.pkg
	if pp, ok := pkg.(*packagesPackage); ok && pp != nil {
		p = pp
	}
	env := &SpecEnv{reg: fc.reg, pkg: p, st: st, vars: map[string]*Value{}}
	var localsFr *frame
	if c.Flags["locals"] == "true" {
		// contract of a function value held in a local (`Func#name`): it may mention the locals of the enclosing function
		localsFr = fr
		env.fr = fr
	}
	if c.Trusted && !fr.viaApplyContract {
		fc.reg.trustedUsed[strings.TrimPrefix(p.PkgPath, modulePath+"/")+"."+name+" (trusted contract)"] = true
	}
	fr.viaApplyContract = false
	if c.RecvName != "" && recv != nil {
		env.vars[c.RecvName] = recv
	} else if c.External != "" && recv != nil {
		args = append([]*Value{recv}, args...)
	}
	for i, n := range c.Params {
		if i < len(args) && n != "_" {
			env.vars[n] = args[i]
		}
	}
	ord := 0
	if call != nil {
		ord = fr.callOrd[call]
	}
	// requires
	k := 0
	for _, cl := range c.Clauses {
		if cl.Kind != "requires" {
			continue
		}
		k++
		lbl := fmt.Sprintf("%d", k)
		if cl.Name != "" {
			lbl = cl.Name
		}
		g := env.evalBool(cl.Expr)
		fc.oblige(st, fr, "pre", fmt.Sprintf("pre@%s#%d/%s", name, ord, lbl), g)
	}
	pre := st.clone()
	preEnv := &SpecEnv{reg: fc.reg, pkg: p, st: pre, vars: env.vars, fr: localsFr}
	// modifies
	allocates := c.Flags["allocates"] == "true"
	for _, cl := range c.Clauses {
		if cl.Kind == "ensures" && strings.Contains(cl.Text, "fresh(") {
			allocates = true // a callee that returns fresh objects allocates
		}
	}
	for _, cl := range c.Clauses {
		if cl.Kind == "modifies" {
			for _, loc := range cl.Locs {
				for _, ml := range preEnv.evalModLoc(loc) {
					havocLoc(st, ml)
				}
			}
		}
	}
	if allocates {
		na := mkVar(freshName("alloc"), SArray(SInt, SBool))
		r := mkBVar(freshName("r"), SInt)
		st.assume(Forall([]*Term{r}, Implies(Select(pre.allocArr(), r), Select(na, r))))
		st.allocArr()
		st.alloc = na
	}
	// results
	var results []*Value
	for i := 0; i < sig.Results().Len(); i++ {
		v := freshValue(sig.Results().At(i).Type(), "ret:"+name)
		results = append(results, v)
	}
	env2 := &SpecEnv{reg: fc.reg, pkg: p, st: st, vars: map[string]*Value{}, old: preEnv, fr: localsFr}
	for k, v := range env.vars {
		env2.vars[k] = v
	}
	for i, n := range c.Results {
		if i < len(results) {
			env2.vars[n] = results[i]
		}
	}
	for _, v := range results {
		st.assumeLoaded(v)
	}
	// inside old(...) the result names are visible too (they are values, not state)
	env2.old = &SpecEnv{reg: fc.reg, pkg: p, st: pre, vars: env2.vars, fr: localsFr}
	for _, cl := range c.Clauses {
		if cl.Kind == "ensures" {
			if strings.Contains(name, "$closure") {
				// the contract of a function literal applied where the literal is called (flag use=contract): a
				// postcondition that names a local of the literal's own body cannot be stated at the call site;
				// it is left out there (assuming less is sound) and stays an obligation of the literal's own unit
				var t *Term
				func() {
					defer func() {
						if r := recover(); r != nil {
							if se, ok := r.(specError); ok && strings.Contains(se.msg, "unknown identifier") {
								fc.reg.assumptions[fmt.Sprintf("postcondition %q of %s names a local of the literal and is not used at its call sites", nonEmpty(cl.Name, cl.Text), name)] = true
								return
							}
							panic(r)
						}
					}()
					t = env2.evalBool(cl.Expr)
				}()
				if t != nil {
					st.assume(t)
				}
				continue
			}
			st.assume(env2.evalBool(cl.Expr))
		}
	}
	fc.ghostHook(st, fr, call, name, env2.vars)
	// vacuity guard: the assumed postcondition must not contradict what is known at the call site
	if !st.dead {
		site := fmt.Sprintf("%s#%d", name, ord)
		if fc.contract != nil && declaredDead(fc.contract.Flags["dead"], site) {
			// `flag dead=Callee#k,...`: a call site the contract declares to be dead code (for instance the error
			// branch after a callee whose contract says it cannot fail there): instead of the cover check, the
			// site must be unreachable on every path
			fc.obls = append(fc.obls, &Obligation{Name: fmt.Sprintf("%s/%sdead@%s", fc.name, fr.prefix, site),
				Hyps: append([]*Term(nil), st.pc...), Goal: TFalse, Kind: "safe", Func: fc.name})
		} else {
			fc.obls = append(fc.obls, &Obligation{Name: fmt.Sprintf("%s/%scover.after@%s#%d", fc.name, fr.prefix, name, ord),
				Hyps: append([]*Term(nil), st.pc...), Goal: TTrue, Kind: "cover", Func: fc.name, Expect: "sat"})
		}
	}
	return results
}

func havocLoc(st *State, ml modLoc) {
	srt := classSorts[ml.class]
	if srt == nil {
		return
	}
	switch {
	case classIsGlobal[ml.class]:
		st.heap[ml.class] = mkVar(freshName("G:"+ml.class), srt)
	case ml.all:
		st.heap[ml.class] = mkVar(freshName("H:"+ml.class), SArray(SInt, srt))
	default:
		st.storeLeaf(ml.class, srt, ml.ref, mkVar(freshName("hv:"+ml.class), srt))
	}
}

func declaredDead(list, site string) bool {
	for _, x := range strings.Split(list, ",") {
		if strings.TrimSpace(x) == site {
			return true
		}
	}
	return false
}

// builtinModel: small set of library functions modelled directly.
func (fr *frame) builtinModel(st *State, call *ast.CallExpr, fn *types.Func, recv *Value, args []*Value) ([]*Value, bool) {
	full := fn.FullName()
	sig := fn.Type().(*types.Signature)
	switch {
	case full == "fmt.Errorf" || full == "errors.New":
		v := freshValue(sig.Results().At(0).Type(), "err")
		st.assume(Neq(v.Typ, mkInt(0)), Gt(v.S, mkInt(0)))
		return []*Value{v}, true
	case full == "fmt.Sprintf" || full == "fmt.Sprint":
		// fmt.Sprintf("%d", n) with one integer argument: the decimal text of n, an (injective) uninterpreted
		// function of n that specifications name decimal(n); every other format is an arbitrary string
		if full == "fmt.Sprintf" && call != nil && len(call.Args) == 2 && !call.Ellipsis.IsValid() {
			if tv, ok := fr.info.Types[call.Args[0]]; ok && tv.Value != nil && tv.Value.Kind() == constant.String && constant.StringVal(tv.Value) == "%d" {
				_, isIdent := call.Args[1].(*ast.Ident) // (re-evaluated here: only a plain variable, which has no effects)
				if bt, ok := fr.typeOf(call.Args[1]).Underlying().(*types.Basic); ok && isIdent && bt.Info()&types.IsInteger != 0 {
					n := fr.eval(st, call.Args[1])
					return []*Value{scalar(mkUF("fmt.decimal", SString, n.S), sig.Results().At(0).Type())}, true
				}
			}
		}
		return []*Value{freshValue(sig.Results().At(0).Type(), "sprintf")}, true
	case strings.HasPrefix(full, "fmt.Print") || strings.HasPrefix(full, "log."):
		return fr.opaqueResults(st, sig, "io"), true
	}
	return nil, false
}

// dispatchIface: closed-world dispatch of an interface method call over the implementations that
// have contracts in the loaded module packages. The obligation `dispatch.closed` demands that the
// dynamic type is one of them; each case then uses that implementation's contract.
func (fr *frame) dispatchIface(st *State, call *ast.CallExpr, fn *types.Func, recv *Value, args []*Value) []*Value {
	fc := fr.fc
	iface := fn.Type().(*types.Signature).Recv().Type().Underlying().(*types.Interface)
	type impl struct {
		t  types.Type
		m  *types.Func
		c  *FuncContract
	}
	var impls []impl
	var paths []string
	for p := range fc.reg.pkgs {
		if strings.HasPrefix(p, modulePath) {
			paths = append(paths, p)
		}
	}
	sort.Strings(paths)
	for _, p := range paths {
		pk := fc.reg.pkgs[p]
		if pk.Types == nil {
			continue
		}
		sc := pk.Types.Scope()
		for _, n := range sc.Names() {
			tn, ok := sc.Lookup(n).(*types.TypeName)
			if !ok || tn.IsAlias() {
				continue
			}
			if _, isIface := tn.Type().Underlying().(*types.Interface); isIface {
				continue
			}
			for _, cand := range []types.Type{types.NewPointer(tn.Type()), tn.Type()} {
				if !types.Implements(cand, iface) {
					continue
				}
				obj, _, _ := types.LookupFieldOrMethod(cand, false, pk.Types, fn.Name())
				m, ok := obj.(*types.Func)
				if !ok {
					continue
				}
				if c := fc.reg.contractFor(m); c != nil {
					impls = append(impls, impl{cand, m, c})
				}
				break
			}
		}
	}
	// an interface contract flagged `otherwise` covers every dynamic type that is not one of the module's own
	// implementations under contract (open world: no dispatch.closed obligation)
	var otherwise *FuncContract
	if c := fc.reg.contractFor(fn); c != nil && c.Flags["otherwise"] != "" {
		otherwise = c
	}
	if len(impls) == 0 {
		if otherwise != nil {
			return fr.applyContract(st, call, fn, otherwise, recv, args)
		}
		panic(unsupported("interface call " + fn.FullName() + ": no interface contract and no implementation with a contract"))
	}
	var conds []*Term
	for _, im := range impls {
		conds = append(conds, Eq(recv.Typ, typeTag(im.t)))
	}
	if otherwise == nil {
		fc.oblige(st, fr, "safe", fmt.Sprintf("dispatch.closed@%s#%d", fn.Name(), fr.callOrd[call]), Or(conds...))
	}
	var outs []*State
	var results [][]*Value
	if otherwise != nil {
		sub := st.clone()
		sub.assume(Not(Or(conds...)))
		if !sub.dead {
			res := fr.applyContract(sub, call, fn, otherwise, recv, args)
			sub.results = res
			outs = append(outs, sub)
			results = append(results, res)
		}
	}
	for i, im := range impls {
		sub := st.clone()
		sub.assume(conds[i])
		if sub.dead {
			continue
		}
		rv := scalar(recv.S, im.t)
		res := fr.applyContract(sub, call, im.m, im.c, rv, args)
		sub.results = res
		outs = append(outs, sub)
		results = append(results, res)
	}
	merged := mergeMany(st, outs)
	if merged == nil {
		panic(unsupported("cannot merge interface dispatch cases"))
	}
	res := merged.results
	merged.results = nil
	*st = *merged
	return res
}

// callOnceArg: the argument of Once.Do is a function value read from a field (e.g. l.release, l.cancel):
// use the contract keyed "<Type>.<field>.call" of the struct that holds it, else fail loudly.
func (fr *frame) callOnceArg(st *State, call *ast.CallExpr, fv *Value) {
	if sel, ok := unparen(call.Args[0]).(*ast.SelectorExpr); ok {
		if s, ok := fr.info.Selections[sel]; ok && s.Kind() == types.FieldVal {
			t := fr.typeOf(sel.X)
			if p, ok := t.Underlying().(*types.Pointer); ok {
				t = p.Elem()
			}
			if n, ok := t.(*types.Named); ok {
				key := n.Obj().Pkg().Path() + "." + n.Obj().Name() + "." + sel.Sel.Name + ".call"
				if c := fr.fc.reg.contracts[key]; c != nil {
					sig := s.Obj().Type().Underlying().(*types.Signature)
					fr.applyContractSig(st, call, n.Obj().Name()+"."+sel.Sel.Name, sig, fr.fc.reg.pkgs[n.Obj().Pkg().Path()], c, fr.eval(st, sel.X), nil)
					return
				}
			}
		}
	}
	panic(unsupported("sync.Once.Do with a function value without contract"))
}

// alwaysReturnsFalse: every return statement of the literal (not of nested literals) is `return false`.
func alwaysReturnsFalse(lit *ast.FuncLit) bool {
	ok := true
	seen := false
	ast.Inspect(lit.Body, func(n ast.Node) bool {
		switch x := n.(type) {
		case *ast.FuncLit:
			return false
		case *ast.ReturnStmt:
			seen = true
			if len(x.Results) != 1 {
				ok = false
			} else if id, isID := x.Results[0].(*ast.Ident); !isID || id.Name != "false" {
				ok = false
			}
		}
		return true
	})
	return ok && seen
}
