package main

// Statement execution, loops, returns/defers, monitors, and the per-function verification driver.

import (
	"fmt"
	"os"
	"regexp"
	"go/ast"
	"go/token"
	"go/types"
	"sort"
	"strings"
)

type ctl int

const (
	cNormal ctl = iota
	cBreak
	cContinue
	cReturn
	cDead // path ended (panic / infeasible)
)

type Outcome struct {
	st    *State
	ctl   ctl
	label string
}

const maxPaths = 4096

func (fr *frame) execBlock(st *State, list []ast.Stmt) []Outcome {
	cur := []*State{st}
	var done []Outcome
	for _, s := range list {
		var next []*State
		for _, c := range cur {
			if c.dead {
				continue
			}
			for _, o := range fr.exec(c, s) {
				if o.ctl == cNormal {
					next = append(next, o.st)
				} else if o.ctl != cDead {
					done = append(done, o)
				}
			}
		}
		cur = next
		if len(cur)+len(done) > maxPaths {
			panic(unsupported("path explosion (more than 4096 paths)"))
		}
		if len(cur) == 0 {
			break
		}
	}
	for _, c := range cur {
		done = append(done, Outcome{st: c, ctl: cNormal})
	}
	return done
}

func one(st *State) []Outcome { return []Outcome{{st: st, ctl: cNormal}} }

func (fr *frame) exec(st *State, s ast.Stmt) []Outcome {
	if _, isBlock := s.(*ast.BlockStmt); !isBlock {
		fr.fc.lastPos = fr.fc.reg.fset.Position(s.Pos()).String()
	}
	switch x := s.(type) {
	case *ast.BlockStmt:
		return fr.execBlock(st, x.List)
	case *ast.ExprStmt:
		if call, ok := unparen(x.X).(*ast.CallExpr); ok {
			fr.evalCall(st, call)
		} else {
			fr.eval(st, x.X)
		}
		if st.dead {
			return []Outcome{{st: st, ctl: cDead}}
		}
		return one(st)
	case *ast.AssignStmt:
		fr.execAssign(st, x)
		if st.dead {
			return []Outcome{{st: st, ctl: cDead}}
		}
		return one(st)
	case *ast.IncDecStmt:
		lv := fr.lvalueOf(st, x.X)
		v := st.load(lv)
		var nv *Value
		if x.Tok == token.INC {
			nv = scalar(Add(v.S, mkInt(1)), v.T)
		} else {
			nv = scalar(Sub(v.S, mkInt(1)), v.T)
		}
		fr.arith(st, nv, x)
		st.store(lv, nv)
		return one(st)
	case *ast.DeclStmt:
		gd := x.Decl.(*ast.GenDecl)
		if gd.Tok == token.VAR {
			for _, sp := range gd.Specs {
				vs := sp.(*ast.ValueSpec)
				for i, n := range vs.Names {
					o, _ := fr.info.Defs[n].(*types.Var)
					if o == nil {
						continue
					}
					if len(vs.Values) == len(vs.Names) {
						st.vars[o] = fr.coerce(st, fr.evalIn(st, vs.Values[i], o.Type()), o.Type())
					} else if len(vs.Values) == 1 {
						tv := fr.eval(st, vs.Values[0])
						st.vars[o] = fr.coerce(st, tv.F[i], o.Type())
					} else {
						st.vars[o] = zeroValue(o.Type())
					}
				}
			}
		}
		return one(st)
	case *ast.IfStmt:
		return fr.execIf(st, x)
	case *ast.ForStmt:
		return fr.execFor(st, x, "")
	case *ast.RangeStmt:
		return fr.execRange(st, x, "")
	case *ast.LabeledStmt:
		switch inner := x.Stmt.(type) {
		case *ast.ForStmt:
			return fr.execFor(st, inner, x.Label.Name)
		case *ast.RangeStmt:
			return fr.execRange(st, inner, x.Label.Name)
		case *ast.SwitchStmt:
			return fr.execSwitch(st, inner, x.Label.Name)
		}
		return fr.exec(st, x.Stmt)
	case *ast.SwitchStmt:
		return fr.execSwitch(st, x, "")
	case *ast.TypeSwitchStmt:
		return fr.execTypeSwitch(st, x)
	case *ast.ReturnStmt:
		var vals []*Value
		if len(x.Results) == 1 && fr.sig.Results().Len() > 1 {
			tv := fr.eval(st, x.Results[0])
			vals = tv.F
		} else {
			for i, r := range x.Results {
				vals = append(vals, fr.coerce(st, fr.evalIn(st, r, fr.sig.Results().At(i).Type()), fr.sig.Results().At(i).Type()))
			}
		}
		if st.dead {
			return []Outcome{{st: st, ctl: cDead}}
		}
		return fr.doReturn(st, vals, x)
	case *ast.BranchStmt:
		lbl := ""
		if x.Label != nil {
			lbl = x.Label.Name
		}
		switch x.Tok {
		case token.BREAK:
			return []Outcome{{st: st, ctl: cBreak, label: lbl}}
		case token.CONTINUE:
			return []Outcome{{st: st, ctl: cContinue, label: lbl}}
		case token.FALLTHROUGH:
			panic(unsupported("fallthrough"))
		case token.GOTO:
			panic(unsupported("goto"))
		}
	case *ast.DeferStmt:
		fr.execDefer(st, x)
		return one(st)
	case *ast.GoStmt:
		fr.fc.reg.assumptions["effects of `go` statements are not modelled ("+fr.fc.name+")"] = true
		fr.fc.reg.dropped["go statement"]++
		return one(st)
	case *ast.EmptyStmt:
		return one(st)
	case *ast.SendStmt:
		sv := fr.eval(st, x.Value)
		fr.fc.reg.assumptions["channel sends are not modelled ("+fr.fc.name+")"] = true
		// `ghost at send: g := e`: e may name the value being sent as `sent`
		fr.fc.ghostHookStmtVars(st, fr, "send", map[string]*Value{"sent": fr.coerce(st, sv, fr.typeOf(x.Chan).Underlying().(*types.Chan).Elem())})
		return one(st)
	case *ast.SelectStmt:
		return fr.execSelect(st, x)
	}
	panic(unsupported(fmt.Sprintf("statement %T", s)))
}

func (fr *frame) execAssign(st *State, x *ast.AssignStmt) {
	if x.Tok != token.ASSIGN && x.Tok != token.DEFINE {
		// op=
		lv := fr.lvalueOf(st, x.Lhs[0])
		a := st.load(lv)
		b := fr.eval(st, x.Rhs[0])
		op := map[token.Token]token.Token{token.ADD_ASSIGN: token.ADD, token.SUB_ASSIGN: token.SUB, token.MUL_ASSIGN: token.MUL,
			token.QUO_ASSIGN: token.QUO, token.REM_ASSIGN: token.REM, token.AND_ASSIGN: token.AND, token.OR_ASSIGN: token.OR,
			token.XOR_ASSIGN: token.XOR, token.SHL_ASSIGN: token.SHL, token.SHR_ASSIGN: token.SHR, token.AND_NOT_ASSIGN: token.AND_NOT}[x.Tok]
		st.store(lv, fr.binop(st, op, a, b, lv.T, x))
		return
	}
	// comma-ok forms and multi-value calls
	if len(x.Lhs) == 2 && len(x.Rhs) == 1 {
		switch r := unparen(x.Rhs[0]).(type) {
		case *ast.IndexExpr:
			if mt, ok := fr.typeOf(r.X).Underlying().(*types.Map); ok {
				m := fr.eval(st, r.X)
				k := fr.eval(st, r.Index)
				has := And(Neq(m.S, mkInt(0)), st.mapHas(mt, m.S, keyTerm(k)))
				v := valueIte(has, st.mapGetRaw(mt, m.S, keyTerm(k)), zeroValue(mt.Elem()))
				st.assumeLoaded(v)
				fr.assignTo(st, x, 0, v)
				fr.assignTo(st, x, 1, scalar(has, types.Typ[types.Bool]))
				return
			}
		case *ast.TypeAssertExpr:
			v, ok := fr.evalTypeAssert(st, r)
			fr.assignTo(st, x, 0, valueIte(ok, v, zeroValue(v.T)))
			fr.assignTo(st, x, 1, scalar(ok, types.Typ[types.Bool]))
			return
		case *ast.UnaryExpr:
			if r.Op == token.ARROW {
				fr.assignTo(st, x, 0, freshValue(fr.typeOf(x.Lhs[0]), "recv"))
				fr.assignTo(st, x, 1, freshValue(types.Typ[types.Bool], "recvok"))
				return
			}
		}
	}
	if len(x.Rhs) == 1 && len(x.Lhs) > 1 {
		tv := fr.eval(st, x.Rhs[0])
		if tv.K != VTuple {
			panic("internal: multi-assign from non-tuple")
		}
		for i := range x.Lhs {
			fr.assignTo(st, x, i, tv.F[i])
		}
		return
	}
	// evaluate all RHS first (parallel assignment)
	var vals []*Value
	for i, r := range x.Rhs {
		var want types.Type
		if x.Tok == token.ASSIGN {
			if id, ok := x.Lhs[i].(*ast.Ident); !ok || id.Name != "_" {
				want = fr.typeOf(x.Lhs[i])
			}
		}
		vals = append(vals, fr.evalIn(st, r, want))
	}
	for i := range x.Lhs {
		fr.assignTo(st, x, i, vals[i])
	}
}

func (fr *frame) assignTo(st *State, x *ast.AssignStmt, i int, v *Value) {
	lhs := x.Lhs[i]
	if id, ok := lhs.(*ast.Ident); ok {
		if id.Name == "_" {
			return
		}
		if x.Tok == token.DEFINE {
			if o, ok := fr.info.Defs[id].(*types.Var); ok && o != nil {
				st.vars[o] = fr.coerce(st, v, o.Type())
				return
			}
		}
	}
	lv := fr.lvalueOf(st, lhs)
	if lv == nil {
		panic(unsupported("assignment target " + exprString(lhs)))
	}
	if lv.kind == lvMap {
		// nil-map write check
		fr.fc.oblige(st, fr, "safe", fmt.Sprintf("safe.nilmap#%d", fr.ords[unparen(lhs)]), Neq(lv.ref, mkInt(0)))
	}
	st.store(lv, fr.coerce(st, v, lv.T))
}

// ---- if / switch ----

func (fr *frame) execIf(st *State, x *ast.IfStmt) []Outcome {
	if x.Init != nil {
		outs := fr.exec(st, x.Init)
		if len(outs) != 1 || outs[0].ctl != cNormal {
			return outs
		}
		st = outs[0].st
	}
	c := fr.eval(st, x.Cond).S
	if st.dead {
		return []Outcome{{st: st, ctl: cDead}}
	}
	var outs []Outcome
	var normals []*State
	if !c.isFalse() {
		t := st.clone()
		t.assume(c)
		for _, o := range fr.execBlock(t, x.Body.List) {
			if o.ctl == cNormal {
				normals = append(normals, o.st)
			} else {
				outs = append(outs, o)
			}
		}
	}
	if !c.isTrue() {
		e := st.clone()
		e.assume(Not(c))
		if x.Else != nil {
			for _, o := range fr.exec(e, x.Else) {
				if o.ctl == cNormal {
					normals = append(normals, o.st)
				} else {
					outs = append(outs, o)
				}
			}
		} else {
			normals = append(normals, e)
		}
	}
	return append(outs, fr.join(st, normals)...)
}

// join merges normal successor states when possible.
func (fr *frame) join(base *State, normals []*State) []Outcome {
	var live []*State
	for _, n := range normals {
		if !n.dead {
			live = append(live, n)
		}
	}
	if len(live) == 0 {
		return nil
	}
	if len(live) == 1 {
		return one(live[0])
	}
	if fr.fc.contract == nil || fr.fc.contract.Flags["paths"] != "split" {
		if m := mergeMany(base, live); m != nil {
			m.results = nil
			return one(m)
		}
	}
	var outs []Outcome
	for _, n := range live {
		outs = append(outs, Outcome{st: n, ctl: cNormal})
	}
	return outs
}

func (fr *frame) execSwitch(st *State, x *ast.SwitchStmt, label string) []Outcome {
	if x.Init != nil {
		outs := fr.exec(st, x.Init)
		if len(outs) != 1 || outs[0].ctl != cNormal {
			return outs
		}
		st = outs[0].st
	}
	var tag *Value
	if x.Tag != nil {
		tag = fr.eval(st, x.Tag)
	}
	var outs []Outcome
	var normals []*State
	rest := st // state where no earlier case matched
	var deflt *ast.CaseClause
	handle := func(s *State, body []ast.Stmt) {
		for _, o := range fr.execBlock(s, body) {
			switch {
			case o.ctl == cNormal:
				normals = append(normals, o.st)
			case o.ctl == cBreak && (o.label == "" || o.label == label):
				normals = append(normals, o.st)
			default:
				outs = append(outs, o)
			}
		}
	}
	for _, cc := range x.Body.List {
		cl := cc.(*ast.CaseClause)
		if cl.List == nil {
			deflt = cl
			continue
		}
		var conds []*Term
		for _, e := range cl.List {
			if tag != nil {
				v := fr.eval(rest, e)
				conds = append(conds, valueEq(tag, fr.coerce(rest, v, tag.T)))
			} else {
				conds = append(conds, fr.eval(rest, e).S)
			}
		}
		c := Or(conds...)
		if !c.isFalse() {
			t := rest.clone()
			t.assume(c)
			handle(t, cl.Body)
		}
		if c.isTrue() {
			rest = nil
			break
		}
		n := rest.clone()
		n.assume(Not(c))
		rest = n
	}
	if rest != nil {
		if deflt != nil {
			handle(rest, deflt.Body)
		} else {
			normals = append(normals, rest)
		}
	}
	return append(outs, fr.join(st, normals)...)
}

func (fr *frame) execTypeSwitch(st *State, x *ast.TypeSwitchStmt) []Outcome {
	if x.Init != nil {
		outs := fr.exec(st, x.Init)
		if len(outs) != 1 || outs[0].ctl != cNormal {
			return outs
		}
		st = outs[0].st
	}
	var subject ast.Expr
	switch a := x.Assign.(type) {
	case *ast.ExprStmt:
		subject = a.X.(*ast.TypeAssertExpr).X
	case *ast.AssignStmt:
		subject = a.Rhs[0].(*ast.TypeAssertExpr).X
	}
	v := fr.eval(st, subject)
	if v.K != VIface {
		panic(unsupported("type switch on non-interface"))
	}
	var outs []Outcome
	var normals []*State
	rest := st
	var deflt *ast.CaseClause
	handle := func(s *State, cl *ast.CaseClause, bound *Value) {
		if o, ok := fr.info.Implicits[cl].(*types.Var); ok && o != nil {
			if bound == nil {
				bound = v
			}
			s.vars[o] = bound
		}
		for _, o := range fr.execBlock(s, cl.Body) {
			switch {
			case o.ctl == cNormal, o.ctl == cBreak && o.label == "":
				normals = append(normals, o.st)
			default:
				outs = append(outs, o)
			}
		}
	}
	for _, cc := range x.Body.List {
		cl := cc.(*ast.CaseClause)
		if cl.List == nil {
			deflt = cl
			continue
		}
		var conds []*Term
		var bound *Value
		for _, e := range cl.List {
			if id, ok := e.(*ast.Ident); ok && id.Name == "nil" {
				conds = append(conds, Eq(v.Typ, mkInt(0)))
				continue
			}
			t := fr.typeOf(e)
			bv, ok := fr.assertType(rest, v, t)
			conds = append(conds, ok)
			if len(cl.List) == 1 {
				bound = bv
			}
		}
		c := Or(conds...)
		if !c.isFalse() {
			t := rest.clone()
			t.assume(c)
			handle(t, cl, bound)
		}
		n := rest.clone()
		n.assume(Not(c))
		rest = n
	}
	if deflt != nil {
		handle(rest, deflt, nil)
	} else {
		normals = append(normals, rest)
	}
	return append(outs, fr.join(st, normals)...)
}

func (fr *frame) execSelect(st *State, x *ast.SelectStmt) []Outcome {
	// non-deterministic choice among the clauses; received values are arbitrary
	fr.fc.reg.assumptions["select: non-deterministic choice, received values arbitrary ("+fr.fc.name+")"] = true
	var outs []Outcome
	var normals []*State
	for i, cc := range x.Body.List {
		cl := cc.(*ast.CommClause)
		s := st.clone()
		choice := mkVar(freshName(fmt.Sprintf("select%d", i)), SBool)
		s.assume(choice)
		if cl.Comm != nil {
			switch c := cl.Comm.(type) {
			case *ast.AssignStmt:
				fr.execAssign(s, c)
			case *ast.ExprStmt:
				fr.eval(s, c.X)
			case *ast.SendStmt:
				fr.eval(s, c.Value)
				fr.fc.ghostHookStmt(s, fr, "send")
			}
		}
		// (after the communication, so that a hook can name the value the case received)
		fr.fc.ghostHookStmt(s, fr, fmt.Sprintf("select-case[%d]", i+1))
		for _, o := range fr.execBlock(s, cl.Body) {
			switch {
			case o.ctl == cNormal, o.ctl == cBreak && o.label == "":
				normals = append(normals, o.st)
			default:
				outs = append(outs, o)
			}
		}
	}
	for _, n := range normals {
		outs = append(outs, Outcome{st: n, ctl: cNormal})
	}
	return outs
}

// ---- defers and returns ----

func (fr *frame) execDefer(st *State, x *ast.DeferStmt) {
	call := x.Call
	d := &deferItem{call: call, kind: "call"}
	if sel, ok := unparen(call.Fun).(*ast.SelectorExpr); ok {
		if s, ok := fr.info.Selections[sel]; ok && s.Kind() == types.MethodVal {
			switch s.Obj().(*types.Func).FullName() {
			case "(*sync.Mutex).Unlock", "(*sync.RWMutex).Unlock", "(*sync.RWMutex).RUnlock":
				d.kind = "unlock"
			}
		}
	}
	if _, ok := unparen(call.Fun).(*ast.FuncLit); ok {
		d.kind = "lit"
	}
	if d.kind == "call" {
		// evaluate arguments now (Go semantics); the callee is resolved at run time of the defer
		d.args = nil
	}
	st.defers = append(st.defers, d)
}

func (fr *frame) runDefers(st *State) {
	for len(st.defers) > fr.deferBase {
		d := st.defers[len(st.defers)-1]
		st.defers = st.defers[:len(st.defers)-1]
		call := d.call.(*ast.CallExpr)
		switch d.kind {
		case "unlock":
			sel := unparen(call.Fun).(*ast.SelectorExpr)
			fr.syntacticModel(st, call, sel)
		case "lit":
			lit := unparen(call.Fun).(*ast.FuncLit)
			fv := fr.eval(st, lit)
			args := fr.evalArgs(st, call, fr.typeOf(lit).(*types.Signature))
			fr.callLiteral(st, fv, lit, args)
		default:
			// NOTE: arguments are evaluated at run time of the deferred call (sound only when they
			// are not reassigned in between; recorded as an assumption)
			fr.fc.reg.assumptions["deferred call arguments evaluated at function exit ("+fr.fc.name+")"] = true
			fr.evalCall(st, call)
		}
		if st.dead {
			return
		}
	}
}

func (fr *frame) doReturn(st *State, vals []*Value, stmt *ast.ReturnStmt) []Outcome {
	fc := fr.fc
	// bind results
	if len(fr.resVars) > 0 {
		if vals != nil {
			for i, o := range fr.resVars {
				st.vars[o] = vals[i]
			}
		}
	} else if fr.sig.Results().Len() > 0 {
		if vals == nil {
			panic("internal: bare return without named results")
		}
	}
	st.results = vals
	if fr == fc.root {
		fc.hintsAtReturn(st, fr)
		fc.ghostAtReturn(st, fr)
	}
	fr.runDefers(st)
	if st.dead {
		return []Outcome{{st: st, ctl: cDead}}
	}
	st.results = vals // deferred literals run inline and must not clobber the returned values
	if len(fr.resVars) > 0 {
		var rs []*Value
		for _, o := range fr.resVars {
			rs = append(rs, st.vars[o])
		}
		st.results = rs
	}
	if fr == fc.root {
		fc.checkPost(st, fr)
	}
	return []Outcome{{st: st, ctl: cReturn}}
}

// ---- monitors ----

func (fr *frame) lockOp(st *State, lockExpr ast.Expr, acquire bool, read bool) {
	fc := fr.fc
	// two shapes: `x.mu.Lock()` (lockExpr = x.mu) and, for an embedded mutex, `x.Lock()` (lockExpr = x,
	// the lock is then named after the embedded field, e.g. RWMutex)
	var ownerExpr ast.Expr
	var lockName string
	if sel, ok := unparen(lockExpr).(*ast.SelectorExpr); ok {
		if s, ok := fr.info.Selections[sel]; ok && s.Kind() == types.FieldVal {
			if tn := typeName(s.Obj().Type()); tn == "sync.Mutex" || tn == "sync.RWMutex" {
				ownerExpr, lockName = sel.X, sel.Sel.Name
			}
		}
	}
	if ownerExpr == nil {
		t := fr.typeOf(lockExpr)
		if p, ok := t.Underlying().(*types.Pointer); ok {
			t = p.Elem()
		}
		if stt, ok := t.Underlying().(*types.Struct); ok {
			for i := 0; i < stt.NumFields(); i++ {
				f := stt.Field(i)
				if f.Embedded() && (typeName(f.Type()) == "sync.Mutex" || typeName(f.Type()) == "sync.RWMutex") {
					ownerExpr, lockName = lockExpr, f.Name()
				}
			}
		}
	}
	if ownerExpr == nil {
		fc.reg.assumptions["lock "+exprString(lockExpr)+" not modelled"] = true
		return
	}
	sel := &ast.SelectorExpr{X: ownerExpr, Sel: &ast.Ident{Name: lockName}}
	ownerT := fr.typeOf(ownerExpr)
	if p, ok := ownerT.Underlying().(*types.Pointer); ok {
		ownerT = p.Elem()
	}
	n, ok := ownerT.(*types.Named)
	if !ok {
		fc.reg.assumptions["lock "+exprString(lockExpr)+" not modelled"] = true
		return
	}
	key := n.Obj().Pkg().Path() + "." + n.Obj().Name()
	g, ok := fc.reg.guards[key]
	if !ok || g.Lock != sel.Sel.Name {
		// no monitor declared: the lock can still be tracked as ghost typestate through
		// `ghost at lock <field>: ...` / `ghost at unlock <field>: ...` clauses
		what := "unlock " + sel.Sel.Name
		if acquire {
			what = "lock " + sel.Sel.Name
		}
		hooked := false
		if fr.contract != nil {
			for _, cl := range fr.contract.Clauses {
				if cl.Kind == "ghost" && cl.Where == what {
					hooked = true
				}
			}
		}
		if hooked {
			fc.ghostHookStmt(st, fr, what)
		} else {
			fc.reg.assumptions["lock "+shortTypeName(ownerT)+"."+sel.Sel.Name+" has no `guarded` declaration: mutual exclusion not used"] = true
		}
		return
	}
	obj := fr.eval(st, sel.X)
	if obj.K != VScalar {
		panic(unsupported("lock owner is not a pointer"))
	}
	pkg := fc.reg.pkgs[n.Obj().Pkg().Path()]
	env := &SpecEnv{reg: fc.reg, pkg: pkg, st: st, vars: map[string]*Value{"self": obj}}
	if acquire {
		// havoc guarded fields, assume the invariant
		for _, f := range g.Fields {
			for _, ml := range env.evalModLoc(&SExpr{Kind: SField, X: &SExpr{Kind: SIdent, Name: "self"}, Name: f}) {
				havocLoc(st, ml)
				if fr == fc.root || true {
					if st.oldOverride == nil {
						st.oldOverride = map[string]*Term{}
					} else {
						c := make(map[string]*Term, len(st.oldOverride)+1)
						for k, v := range st.oldOverride {
							c[k] = v
						}
						st.oldOverride = c
					}
					st.oldOverride[ml.class] = st.heap[ml.class]
				}
			}
		}
		for _, inv := range fc.reg.invs[key] {
			st.assume(env.evalBool(inv.Expr))
		}
		st.held = append(st.held, &lockRef{obj: obj.S, typ: key, lock: g.Lock, rw: read})
		fc.reg.trustedUsed["sync.Mutex / sync.RWMutex provide mutual exclusion (monitor rule on "+n.Obj().Name()+"."+g.Lock+")"] = true
		return
	}
	// release: the invariant must hold
	for i, inv := range fc.reg.invs[key] {
		name := inv.Name
		if name == "" {
			name = fmt.Sprintf("%d", i+1)
		}
		fc.oblige(st, fr, "inv", "inv@unlock:"+n.Obj().Name()+"/"+name, env.evalBool(inv.Expr))
	}
	for i, h := range st.held {
		if h.typ == key {
			st.held = append(append([]*lockRef(nil), st.held[:i]...), st.held[i+1:]...)
			break
		}
	}
}

// ---- panics ----

func (fc *fctx) panicAt(st *State, fr *frame, call *ast.CallExpr) {
	var cond *Term = TFalse
	if fr == fc.root || true {
		for _, cl := range fc.contract.Clauses {
			if cl.Kind == "panics_only_if" {
				// evaluated in the state at the panic (old(e) names the entry state): the condition may be a
				// ghost recorded on the way, e.g. "the store refused the write"
				env := fc.postEnv(st, fr)
				cond = Or(cond, env.evalBool(cl.Expr))
			}
		}
	}
	fc.oblige(st, fr, "safe", fmt.Sprintf("safe.panic#%d", fr.ords[call]), cond)
	st.dead = true
}

func (fc *fctx) recoverValue(st *State, t types.Type) *Value {
	// no panic propagates in the modelled paths (panics end the path), so recover() returns nil
	return zeroValue(t)
}

// ---- ghost hooks ----

func (fc *fctx) ghostHook(st *State, fr *frame, call *ast.CallExpr, name string, vars map[string]*Value) {
	if call != nil && fr.contract == nil && fr.hookContract != nil {
		// inside an inlined literal: only the ordinal-free hooks of the enclosing contract apply
		for _, cl := range fr.hookContract.Clauses {
			if cl.Kind != "ghost" {
				continue
			}
			for _, cand := range []string{name, name[strings.LastIndex(name, ".")+1:]} {
				if cl.Where == "call "+cand {
					fc.ghostAssign(st, fr, cl, vars)
					break
				}
			}
		}
		return
	}
	if call == nil || fr.contract == nil {
		return
	}
	ord := fr.callOrd[call]
	if os.Getenv("GOVC_TRACE_HOOKS") != "" {
		fmt.Fprintf(os.Stderr, "hook? %s call[%d] %s\n", fc.name, ord, name)
	}
	for _, cl := range fr.contract.Clauses {
		if cl.Kind != "ghost" {
			continue
		}
		for _, cand := range []string{name, name[strings.LastIndex(name, ".")+1:]} {
			if cl.Where == fmt.Sprintf("call[%d] %s", ord, cand) || cl.Where == "call "+cand {
				fc.ghostAssign(st, fr, cl, vars)
				break
			}
		}
	}
}

func (fc *fctx) ghostHookStmt(st *State, fr *frame, what string) {
	fc.ghostHookStmtVars(st, fr, what, nil)
}

func (fc *fctx) ghostHookStmtVars(st *State, fr *frame, what string, vars map[string]*Value) {
	if fr.contract == nil {
		return
	}
	for _, cl := range fr.contract.Clauses {
		if cl.Kind == "ghost" && cl.Where == what {
			fc.ghostAssign(st, fr, cl, vars)
		}
	}
}

func (fc *fctx) ghostAtReturn(st *State, fr *frame) {
	for _, cl := range fc.contract.Clauses {
		if cl.Kind == "ghost" && cl.Where == "return" {
			fc.ghostAssign(st, fr, cl, nil)
		}
	}
}

// hintsAtReturn proves and then assumes the `assert` clauses of the contract (proof hints: each is
// an obligation of its own, so nothing is assumed without proof).
func (fc *fctx) hintsAtReturn(st *State, fr *frame) {
	k := 0
	for _, cl := range fc.contract.Clauses {
		if cl.Kind != "assert" {
			continue
		}
		k++
		name := cl.Name
		if name == "" {
			name = fmt.Sprintf("%d", k)
		}
		env := fc.postEnv(st, fr)
		fc.oblige(st, fr, "hint", "hint:"+name, env.evalBool(cl.Expr))
	}
}

func (fc *fctx) ghostAssign(st *State, fr *frame, cl *Clause, extra map[string]*Value) {
	env := fc.postEnv(st, fr)
	env.fr = fr // ghost updates may mention the function's locals by name
	for k, v := range fr.outerExtras { // ... and the names of the range loops they sit in (keys$k, pos$k, ...)
		if _, exists := env.vars[k]; !exists && v != nil {
			env.vars[k] = v
		}
	}
	for k, v := range extra {
		if _, exists := env.vars[k]; !exists {
			env.vars[k] = v
		} else if os.Getenv("GOVC_TRACE_HOOKS") != "" && regexp.MustCompile(`\b`+regexp.QuoteMeta(k)+`\b`).MatchString(cl.Text) {
			// diagnostic only: the caller's parameter / result of this name shadows the callee's
			fmt.Fprintf(os.Stderr, "hook-shadow: %s at %q: %q is the caller's, not the callee's\n", fc.name, cl.Where, k)
		}
	}
	v := env.eval(cl.Expr)
	env.assign(cl.Target, v)
}

// assign performs a ghost assignment target := v.
func (env *SpecEnv) assign(target *SExpr, v *Value) {
	switch target.Kind {
	case SIdent:
		if env.pkg != nil {
			if g, ok := env.reg.gvars[env.pkg.PkgPath+"."+target.Name]; ok {
				cls := "ghost:" + env.pkg.PkgPath + "." + g.Name
				if v.SpecKind == "" && g.SType.Kind != "mmap" && g.SType.Kind != "set" && g.SType.Kind != "seq" {
					if gt := env.reg.resolveSType(env.pkg, g.SType); gt != nil {
						if _, isScalar := scalarSort(gt); !isScalar {
							// interface / composite ghost variable: one global per leaf
							cv := env.fr0coerce(v, gt)
							forEachLeaf(cv, cls, func(path string, t *Term) {
								env.st.heap[path] = t
								noteClass(path, t.Sort, true)
							})
							return
						}
					}
				}
				env.st.heap[cls] = v.S
				noteClass(cls, v.S.Sort, true)
				if v.SpecKind == "seq" {
					env.st.heap[cls+"#len"] = v.Len
					noteClass(cls+"#len", SInt, true)
				}
				return
			}
		}
		// a ghost variable declared in another package's contract file (unique by name)
		for k, g := range env.reg.gvars {
			if strings.HasSuffix(k, "."+target.Name) {
				cls := "ghost:" + k
				if v.SpecKind == "" && g.SType.Kind != "mmap" && g.SType.Kind != "set" && g.SType.Kind != "seq" {
					if gt := env.reg.resolveSType(env.reg.pkgs[strings.TrimSuffix(k, "."+target.Name)], g.SType); gt != nil {
						if _, isScalar := scalarSort(gt); !isScalar {
							cv := env.fr0coerce(v, gt)
							forEachLeaf(cv, cls, func(path string, t *Term) {
								env.st.heap[path] = t
								noteClass(path, t.Sort, true)
							})
							return
						}
					}
				}
				env.st.heap[cls] = v.S
				noteClass(cls, v.S.Sort, true)
				if v.SpecKind == "seq" {
					env.st.heap[cls+"#len"] = v.Len
					noteClass(cls+"#len", SInt, true)
				}
				return
			}
		}
		specFail("ghost assignment to unknown variable %s", target.Name)
	case SField:
		x := env.eval(target.X)
		for _, ml := range env.evalModLoc(target) {
			_ = x
			t := v.S
			if strings.HasSuffix(ml.class, "#len") {
				t = v.Len
			}
			env.st.storeLeaf(ml.class, t.Sort, ml.ref, t)
		}
	case SIndex:
		cur := env.eval(target.X)
		k := env.eval(target.Y)
		nv := &Value{K: VScalar, SpecKind: cur.SpecKind, T: cur.T, S: Store(cur.S, k.S, v.S), Len: cur.Len}
		env.assign(target.X, nv)
	default:
		specFail("bad ghost assignment target %s", target)
	}
}

// ---- environments for the function's own contract ----

// oldState is the entry state overlaid with the lock-time values of guarded fields.
func (fc *fctx) oldState(st *State) *State {
	if len(st.oldOverride) == 0 {
		return fc.entry
	}
	o := fc.entry.clone()
	for k, v := range st.oldOverride {
		o.heap[k] = v
	}
	return o
}

func (fc *fctx) oldEnv(st *State) *SpecEnv {
	vars := map[string]*Value{}
	for k, v := range fc.capturedEntry {
		vars[k] = v
	}
	for k, v := range fc.paramVals {
		vars[k] = v
	}
	return &SpecEnv{reg: fc.reg, pkg: fc.root.pkg, st: fc.oldState(st), vars: vars}
}

func (fc *fctx) postEnv(st *State, fr *frame) *SpecEnv {
	vars := map[string]*Value{}
	for k, v := range fc.paramVals {
		vars[k] = v
	}
	for i, n := range fc.resNames {
		if st.results != nil && i < len(st.results) {
			vars[n] = st.results[i]
		}
	}
	old := fc.oldEnv(st)
	for i, n := range fc.resNames {
		if st.results != nil && i < len(st.results) {
			old.vars[n] = st.results[i]
		}
	}
	return &SpecEnv{reg: fc.reg, pkg: fc.root.pkg, st: st, vars: vars, old: old}
}

// invEnv: environment for loop invariants (locals by name, params current values).
func (fc *fctx) invEnv(st *State, fr *frame) *SpecEnv {
	vars := map[string]*Value{}
	old := fc.oldEnv(st)
	return &SpecEnv{reg: fc.reg, pkg: fr.pkg, st: st, vars: vars, old: old, fr: fr}
}

// checkPost emits the ensures and frame obligations at a return of the root function.
func (fc *fctx) checkPost(st *State, fr *frame) {
	env := fc.postEnv(st, fr)
	env.fr = fr // locals still in scope at the return may be named (after parameters and results)
	k := 0
	for _, cl := range fc.contract.Clauses {
		if cl.Kind != "ensures" {
			continue
		}
		k++
		name := fmt.Sprintf("ensures[%d]", k)
		if cl.Name != "" {
			name = "ensures:" + cl.Name
		}
		fc.oblige(st, fr, "ensures", name, env.evalBool(cl.Expr))
	}
	if len(st.held) > 0 {
		fc.oblige(st, fr, "safe", "lock.released", TFalse)
	}
	fc.checkFrame(st, fr, fc.entryHeapFor(st), "frame")
}

func (fc *fctx) entryHeapFor(st *State) map[string]*Term {
	return fc.oldState(st).heap
}

// checkFrame: every heap location not named in `modifies` and allocated at entry is unchanged.
func (fc *fctx) checkFrame(st *State, fr *frame, oldHeap map[string]*Term, what string) {
	if fc.contract.Flags["frame"] == "unchecked" {
		fc.reg.assumptions["frame condition of "+fc.name+" not checked (flag frame=unchecked)"] = true
		return
	}
	var classes []string
	for c := range st.heap {
		classes = append(classes, c)
	}
	sort.Strings(classes)
	alloc0 := fc.entry.allocArr()
	for _, c := range classes {
		now := st.heap[c]
		old, ok := oldHeap[c]
		if !ok {
			old = initialHeapTerm(c, now.Sort)
		}
		if now == old {
			continue
		}
		// which refs may change?
		var allowed []*Term
		whole := false
		for _, ml := range fc.modLocs {
			if ml.class != c {
				continue
			}
			if ml.all || classIsGlobal[c] || ml.ref == nil {
				whole = true
			} else {
				allowed = append(allowed, ml.ref)
			}
		}
		if whole {
			continue
		}
		if classIsGlobal[c] {
			fc.oblige(st, fr, "frame", what+"["+c+"]", Eq(now, old))
			continue
		}
		r := mkBVar(freshName("r"), SInt)
		var notAllowed []*Term
		for _, a := range allowed {
			notAllowed = append(notAllowed, Neq(r, a))
		}
		goal := Forall([]*Term{r}, Implies(And(append([]*Term{Select(alloc0, r)}, notAllowed...)...), Eq(Select(now, r), Select(old, r))))
		fc.oblige(st, fr, "frame", what+"["+c+"]", goal)
	}
}

// fr0coerce: a ghost assignment of an untyped nil / concrete value to an interface-typed ghost variable
func (env *SpecEnv) fr0coerce(v *Value, want types.Type) *Value {
	if _, isIface := want.Underlying().(*types.Interface); isIface && v.K != VIface {
		if v == untypedNil {
			return zeroValue(want)
		}
		return toIface(v)
	}
	return v
}
