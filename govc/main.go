package main

import (
	"encoding/json"
	"flag"
	"fmt"
	"os"
	"path/filepath"
	"sort"
	"strconv"
	"strings"
	"time"
)

type PropFunc struct {
	Pkg  string `json:"pkg"`
	Func string `json:"func"`
	// Stretch functions are only checked in the thorough tier and never fail the run
	Stretch bool `json:"stretch,omitempty"`
	// Closure > 0: verify the k-th function literal of the function against its closure[k] contract
	Closure int `json:"closure,omitempty"`
}

type PropConfig struct {
	ID        string     `json:"id"`
	Packages  []string   `json:"packages"`
	Functions []PropFunc `json:"functions"`
	LemmaPkgs []string   `json:"lemma_packages,omitempty"`
	Notes     []string   `json:"assumptions,omitempty"`
	NotCovered []string  `json:"not_covered,omitempty"`
	Bounded   []BoundedCheck `json:"bounded,omitempty"`
	Replay    map[string]string `json:"replay,omitempty"`
}

type BoundedCheck struct {
	Name     string `json:"name"`
	Pkg      string `json:"pkg"`      // package directory relative to the repository
	Test     string `json:"test"`     // test file relative to /verif
	Run      string `json:"run"`      // -run pattern
	Bound    string `json:"bound"`    // human-readable bound (quick tier)
	Env      string `json:"env,omitempty"`          // KEY=VALUE for the quick tier
	EnvThorough string `json:"env_thorough,omitempty"` // KEY=VALUE for the thorough tier
	BoundThorough string `json:"bound_thorough,omitempty"`
}

func main() {
	prop := flag.String("prop", "", "property id (reads <verif>/props/<id>.json)")
	repo := flag.String("repo", "/repo", "repository root")
	verif := flag.String("verif", "/verif", "verification directory")
	thorough := flag.Bool("thorough", false, "thorough tier")
	only := flag.String("only", "", "only functions whose key contains this substring")
	dump := flag.Bool("dump", false, "print obligations")
	flag.Parse()
	if *prop == "" {
		fmt.Fprintln(os.Stderr, "usage: govc -prop Cxx [-thorough]")
		os.Exit(2)
	}
	os.Exit(runProperty(*prop, *repo, *verif, *thorough, *only, *dump))
}

func runProperty(id, repo, verif string, thorough bool, only string, dump bool) int {
	t0 := time.Now()
	var cfg PropConfig
	b, err := os.ReadFile(filepath.Join(verif, "props", id+".json"))
	if err != nil {
		fmt.Fprintln(os.Stderr, "cannot read property config:", err)
		return 2
	}
	if err := json.Unmarshal(b, &cfg); err != nil {
		fmt.Fprintln(os.Stderr, "bad property config:", err)
		return 2
	}
	tier := "quick"
	if thorough {
		tier = "thorough"
	}
	seed := 0
	if s := os.Getenv("VERIF_SEED"); s != "" {
		seed, _ = strconv.Atoi(s)
	}
	outDir := filepath.Join(verif, "out", id)
	if d := os.Getenv("VERIF_EVIDENCE_DIR"); d != "" {
		// selftest runs: keep scratch output and evidence away from the registered locations
		outDir = filepath.Join(d, "out", id)
	}
	os.RemoveAll(outDir)
	os.MkdirAll(outDir, 0o755)
	rep := &Report{ID: id, Tier: tier, Seed: seed, cfg: &cfg, verif: verif, repo: repo, outDir: outDir, t0: t0}

	// vocabulary packages: contracts of many packages name *httpprot.Request / *httpprot.Response and the
	// context's ghost state, whether or not the package under contract imports them
	pkgsToLoad := append([]string(nil), cfg.Packages...)
	for _, v := range []string{"pkg/protocols/httpprot", "pkg/context"} {
		have := false
		for _, p := range pkgsToLoad {
			if p == v {
				have = true
			}
		}
		if !have {
			pkgsToLoad = append(pkgsToLoad, v)
		}
	}
	reg, err := loadRegistry(repo, verif, pkgsToLoad)
	if err != nil {
		rep.engineFailure("load: " + err.Error())
		return rep.finish()
	}
	rep.reg = reg
	rep.loadS = time.Since(t0).Seconds()
	loadLock(verif)
	defer saveLock(verif)
	axioms, err := reg.axiomTerms()
	if err != nil {
		rep.engineFailure("contract-detached:spec: " + err.Error())
		return rep.finish()
	}
	var obls []*Obligation
	for _, lp := range cfg.LemmaPkgs {
		lo, proven, err := reg.lemmaObligations(lp)
		if err != nil {
			rep.engineFailure("contract-detached:spec: " + err.Error())
			return rep.finish()
		}
		obls = append(obls, lo...)
		axioms = append(axioms, proven...)
	}
	stretch := map[string]bool{}
	for _, f := range cfg.Functions {
		if only != "" && !strings.Contains(f.Func, only) {
			continue
		}
		if f.Stretch && !thorough {
			continue
		}
		fr, fo := verifyFunc(reg, f.Pkg, f.Func, f.Closure)
		rep.Funcs = append(rep.Funcs, fr)
		if fr.Error != "" {
			rep.detached = append(rep.detached, fr)
		}
		if f.Stretch {
			for _, o := range fo {
				stretch[o.Name] = true
			}
		}
		obls = append(obls, fo...)
	}
	if dump {
		for _, o := range obls {
			fmt.Printf("== %s [%s]\n", o.Name, o.Kind)
			for _, h := range o.Hyps {
				fmt.Printf("   hyp  %s\n", h)
			}
			fmt.Printf("   goal %s\n", o.Goal)
		}
	}
	sc := solveConfig{outDir: outDir, quickMs: 3000, fullMs: 25000, parallel: 12, axioms: axioms}
	if thorough {
		sc.fullMs = 60000
		sc.agree = true
		sc.parallel = 5
	}
	rep.results = dischargeAll(obls, sc)
	rep.stretch = stretch
	for _, bc := range cfg.Bounded {
		rep.runBounded(bc, thorough)
	}
	return rep.finish()
}

var _ = sort.Strings
