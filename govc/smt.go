package main

// SMT term representation, light simplifier and SMT-LIB printer.

import (
	"fmt"
	"math/big"
	"sort"
	"strings"
	"sync"
)

// Sort is an SMT sort.
type Sort struct {
	Name string // "Int", "Bool", "String", "Array", or an uninterpreted sort name
	K, V *Sort  // for Array
}

var (
	SInt    = &Sort{Name: "Int"}
	SBool   = &Sort{Name: "Bool"}
	SString = &Sort{Name: "String"}
)

var arraySorts = map[string]*Sort{}

// SArray returns the (interned) array sort.
func SArray(k, v *Sort) *Sort {
	key := k.String() + "->" + v.String()
	if s, ok := arraySorts[key]; ok {
		return s
	}
	s := &Sort{Name: "Array", K: k, V: v}
	arraySorts[key] = s
	return s
}

func (s *Sort) String() string {
	if s.Name == "Array" {
		return "(Array " + s.K.String() + " " + s.V.String() + ")"
	}
	return s.Name
}

func sameSort(a, b *Sort) bool { return a == b || a.String() == b.String() }

// Term is an SMT term.
type Term struct {
	Op    string // operator / symbol name
	Args  []*Term
	Sort  *Sort
	Kind  termKind
	Int   *big.Int // KInt
	Str   string   // KStr
	Bound []*Term  // KQuant: bound variables
	Pats  [][]*Term
	id    int
	open  []string // names of bound variables occurring free in this term (sorted)
}

type termKind int

const (
	KApp   termKind = iota // builtin operator application
	KVar                   // free constant (declared)
	KInt                   // integer literal
	KBool                  // true/false literal (Op "true"/"false")
	KStr                   // string literal
	KQuant                 // forall/exists
	KUF                    // uninterpreted function application (declared)
	KBVar                  // bound variable
)

var internTab = map[string]*Term{}
var internMu sync.Mutex

// intern returns the unique representative of t (hash-consing).
func intern(t *Term) *Term {
	var b strings.Builder
	fmt.Fprintf(&b, "%d|%s|%s|", t.Kind, t.Op, t.Sort.String())
	switch t.Kind {
	case KInt:
		b.WriteString(t.Int.String())
	case KStr:
		b.WriteString(t.Str)
	}
	for _, a := range t.Args {
		fmt.Fprintf(&b, "%d,", a.id)
	}
	if t.Kind == KQuant {
		b.WriteString("|")
		for _, v := range t.Bound {
			fmt.Fprintf(&b, "%s:%s,", v.Op, v.Sort.String())
		}
		for _, p := range t.Pats {
			b.WriteString("|")
			for _, x := range p {
				fmt.Fprintf(&b, "%d,", x.id)
			}
		}
	}
	k := b.String()
	internMu.Lock()
	defer internMu.Unlock()
	if r, ok := internTab[k]; ok {
		return r
	}
	t.id = len(internTab) + 1
	// free bound variables
	switch t.Kind {
	case KBVar:
		t.open = []string{t.Op}
	default:
		var set map[string]bool
		add := func(x *Term) {
			for _, n := range x.open {
				if set == nil {
					set = map[string]bool{}
				}
				set[n] = true
			}
		}
		for _, a := range t.Args {
			add(a)
		}
		for _, p := range t.Pats {
			for _, x := range p {
				add(x)
			}
		}
		if t.Kind == KQuant {
			for _, v := range t.Bound {
				delete(set, v.Op)
			}
		}
		if len(set) > 0 {
			for n := range set {
				t.open = append(t.open, n)
			}
			sort.Strings(t.open)
		}
	}
	internTab[k] = t
	return t
}

var (
	TTrue  = intern(&Term{Op: "true", Sort: SBool, Kind: KBool})
	TFalse = intern(&Term{Op: "false", Sort: SBool, Kind: KBool})
)

func mkInt(n int64) *Term    { return intern(&Term{Kind: KInt, Int: big.NewInt(n), Sort: SInt}) }
func mkBig(n *big.Int) *Term { return intern(&Term{Kind: KInt, Int: new(big.Int).Set(n), Sort: SInt}) }
func mkBool(b bool) *Term {
	if b {
		return TTrue
	}
	return TFalse
}
func mkStr(s string) *Term           { return intern(&Term{Kind: KStr, Str: s, Sort: SString}) }
func mkVar(n string, s *Sort) *Term  { return intern(&Term{Kind: KVar, Op: n, Sort: s}) }
func mkBVar(n string, s *Sort) *Term { return intern(&Term{Kind: KBVar, Op: n, Sort: s}) }

// UF signatures declared globally (name -> arg sorts, result sort)
type ufSig struct {
	Args []*Sort
	Res  *Sort
}

var ufSigs = map[string]ufSig{}

func declareUF(name string, args []*Sort, res *Sort) {
	if old, ok := ufSigs[name]; ok {
		if len(old.Args) != len(args) || !sameSort(old.Res, res) {
			panic("UF redeclared with different signature: " + name)
		}
		return
	}
	ufSigs[name] = ufSig{args, res}
}

func mkUF(name string, res *Sort, args ...*Term) *Term {
	as := make([]*Sort, len(args))
	for i, a := range args {
		as[i] = a.Sort
	}
	declareUF(name, as, res)
	return intern(&Term{Kind: KUF, Op: name, Args: args, Sort: res})
}

func mkApp(op string, s *Sort, args ...*Term) *Term {
	return intern(&Term{Kind: KApp, Op: op, Args: args, Sort: s})
}

func (t *Term) isTrue() bool  { return t.Kind == KBool && t.Op == "true" }
func (t *Term) isFalse() bool { return t.Kind == KBool && t.Op == "false" }
func (t *Term) isIntLit() bool { return t.Kind == KInt }

// Key returns a structural key (terms are hash-consed, so the id is one).
func (t *Term) Key() int { return t.id }

func termEq(a, b *Term) bool { return a == b }

// ---- constructors with simplification ----

func And(ts ...*Term) *Term {
	var out []*Term
	seen := map[int]bool{}
	for _, t := range ts {
		if t == nil || t.isTrue() {
			continue
		}
		if t.isFalse() {
			return TFalse
		}
		if t.Kind == KApp && t.Op == "and" {
			for _, a := range t.Args {
				if !seen[a.Key()] {
					seen[a.Key()] = true
					out = append(out, a)
				}
			}
			continue
		}
		if !seen[t.Key()] {
			seen[t.Key()] = true
			out = append(out, t)
		}
	}
	switch len(out) {
	case 0:
		return TTrue
	case 1:
		return out[0]
	}
	return mkApp("and", SBool, out...)
}

func Or(ts ...*Term) *Term {
	var out []*Term
	for _, t := range ts {
		if t == nil || t.isFalse() {
			continue
		}
		if t.isTrue() {
			return TTrue
		}
		if t.Kind == KApp && t.Op == "or" {
			out = append(out, t.Args...)
			continue
		}
		out = append(out, t)
	}
	switch len(out) {
	case 0:
		return TFalse
	case 1:
		return out[0]
	}
	return mkApp("or", SBool, out...)
}

func Not(t *Term) *Term {
	if t.isTrue() {
		return TFalse
	}
	if t.isFalse() {
		return TTrue
	}
	if t.Kind == KApp && t.Op == "not" {
		return t.Args[0]
	}
	return mkApp("not", SBool, t)
}

func Implies(a, b *Term) *Term {
	if a.isTrue() {
		return b
	}
	if a.isFalse() || b.isTrue() {
		return TTrue
	}
	if b.isFalse() {
		return Not(a)
	}
	return mkApp("=>", SBool, a, b)
}

func Iff(a, b *Term) *Term { return Eq(a, b) }

func Ite(c, a, b *Term) *Term {
	if c.isTrue() {
		return a
	}
	if c.isFalse() {
		return b
	}
	if termEq(a, b) {
		return a
	}
	if a.Sort == SBool || sameSort(a.Sort, SBool) {
		if a.isTrue() && b.isFalse() {
			return c
		}
		if a.isFalse() && b.isTrue() {
			return Not(c)
		}
	}
	return mkApp("ite", a.Sort, c, a, b)
}

func Eq(a, b *Term) *Term {
	if !sameSort(a.Sort, b.Sort) {
		panic(fmt.Sprintf("Eq: sort mismatch %s vs %s (%s = %s)", a.Sort, b.Sort, a.smt(), b.smt()))
	}
	if termEq(a, b) {
		return TTrue
	}
	if a.Kind == KInt && b.Kind == KInt {
		return mkBool(a.Int.Cmp(b.Int) == 0)
	}
	if a.Kind == KStr && b.Kind == KStr {
		return mkBool(a.Str == b.Str)
	}
	if a.Kind == KBool && b.Kind == KBool {
		return mkBool(a.Op == b.Op)
	}
	if a.Kind == KBool {
		a, b = b, a
	}
	if b.Kind == KBool {
		if b.isTrue() {
			return a
		}
		return Not(a)
	}
	return mkApp("=", SBool, a, b)
}

func Neq(a, b *Term) *Term { return Not(Eq(a, b)) }

func cmp(op string, a, b *Term) *Term {
	if a.Kind == KInt && b.Kind == KInt {
		c := a.Int.Cmp(b.Int)
		switch op {
		case "<":
			return mkBool(c < 0)
		case "<=":
			return mkBool(c <= 0)
		case ">":
			return mkBool(c > 0)
		case ">=":
			return mkBool(c >= 0)
		}
	}
	if termEq(a, b) {
		return mkBool(op == "<=" || op == ">=")
	}
	return mkApp(op, SBool, a, b)
}

func Lt(a, b *Term) *Term { return cmp("<", a, b) }
func Le(a, b *Term) *Term { return cmp("<=", a, b) }
func Gt(a, b *Term) *Term { return cmp(">", a, b) }
func Ge(a, b *Term) *Term { return cmp(">=", a, b) }

func Add(a, b *Term) *Term {
	if a.Kind == KInt && b.Kind == KInt {
		return mkBig(new(big.Int).Add(a.Int, b.Int))
	}
	if a.Kind == KInt && a.Int.Sign() == 0 {
		return b
	}
	if b.Kind == KInt && b.Int.Sign() == 0 {
		return a
	}
	// (x + c1) + c2
	if b.Kind == KInt && a.Kind == KApp && a.Op == "+" && len(a.Args) == 2 && a.Args[1].Kind == KInt {
		return Add(a.Args[0], mkBig(new(big.Int).Add(a.Args[1].Int, b.Int)))
	}
	if b.Kind == KInt && a.Kind == KApp && a.Op == "-" && len(a.Args) == 2 && a.Args[1].Kind == KInt {
		return Add(a.Args[0], mkBig(new(big.Int).Sub(b.Int, a.Args[1].Int)))
	}
	if b.Kind == KInt && b.Int.Sign() < 0 {
		return mkApp("-", SInt, a, mkBig(new(big.Int).Neg(b.Int)))
	}
	return mkApp("+", SInt, a, b)
}

func Sub(a, b *Term) *Term {
	if a.Kind == KInt && b.Kind == KInt {
		return mkBig(new(big.Int).Sub(a.Int, b.Int))
	}
	if b.Kind == KInt {
		return Add(a, mkBig(new(big.Int).Neg(b.Int)))
	}
	if termEq(a, b) {
		return mkInt(0)
	}
	return mkApp("-", SInt, a, b)
}

func Neg(a *Term) *Term { return Sub(mkInt(0), a) }

func Mul(a, b *Term) *Term {
	if a.Kind == KInt && b.Kind == KInt {
		return mkBig(new(big.Int).Mul(a.Int, b.Int))
	}
	for _, p := range [][2]*Term{{a, b}, {b, a}} {
		if p[0].Kind == KInt {
			if p[0].Int.Sign() == 0 {
				return mkInt(0)
			}
			if p[0].Int.Cmp(big.NewInt(1)) == 0 {
				return p[1]
			}
		}
	}
	return mkApp("*", SInt, a, b)
}

// GoDiv encodes Go's truncated integer division.
func GoDiv(a, b *Term) *Term {
	if a.Kind == KInt && b.Kind == KInt && b.Int.Sign() != 0 {
		return mkBig(new(big.Int).Quo(a.Int, b.Int))
	}
	if b.Kind == KInt && b.Int.Cmp(big.NewInt(1)) == 0 {
		return a
	}
	// SMT div is floor for positive divisor / euclidean. Truncated:
	// a>=0: (div a b) for b>0; general: ite(a>=0, div a b, -(div (-a) b))
	return Ite(Ge(a, mkInt(0)), mkApp("div", SInt, a, b), Neg(mkApp("div", SInt, Neg(a), b)))
}

// GoMod encodes Go's truncated remainder.
func GoMod(a, b *Term) *Term {
	if a.Kind == KInt && b.Kind == KInt && b.Int.Sign() != 0 {
		return mkBig(new(big.Int).Rem(a.Int, b.Int))
	}
	return Ite(Ge(a, mkInt(0)), mkApp("mod", SInt, a, b), Neg(mkApp("mod", SInt, Neg(a), b)))
}

// EDiv / EMod: SMT-LIB (euclidean) div and mod, for non-negative operands where the caller knows it.
func EDiv(a, b *Term) *Term { return mkApp("div", SInt, a, b) }
func EMod(a, b *Term) *Term { return mkApp("mod", SInt, a, b) }

func Select(a, i *Term) *Term {
	if a.Sort.Name != "Array" {
		panic("Select on non-array " + a.smt())
	}
	// select(store(a,j,v), i)
	for a.Kind == KApp && a.Op == "store" {
		j := a.Args[1]
		if termEq(i, j) {
			return a.Args[2]
		}
		if i.Kind == KInt && j.Kind == KInt { // distinct literals
			a = a.Args[0]
			continue
		}
		if i.Kind == KStr && j.Kind == KStr {
			a = a.Args[0]
			continue
		}
		break
	}
	if a.Kind == KApp && a.Op == "const-array" {
		return a.Args[0]
	}
	return mkApp("select", a.Sort.V, a, i)
}

func Store(a, i, v *Term) *Term {
	if a.Sort.Name != "Array" {
		panic("Store on non-array")
	}
	if !sameSort(a.Sort.V, v.Sort) {
		panic(fmt.Sprintf("Store: sort mismatch %s vs %s", a.Sort.V, v.Sort))
	}
	if a.Kind == KApp && a.Op == "store" && termEq(a.Args[1], i) {
		return Store(a.Args[0], i, v)
	}
	return mkApp("store", a.Sort, a, i, v)
}

func ConstArray(s *Sort, v *Term) *Term { return mkApp("const-array", s, v) }

func Forall(bound []*Term, body *Term) *Term { return quant("forall", bound, body, nil) }
func Exists(bound []*Term, body *Term) *Term { return quant("exists", bound, body, nil) }

func quant(q string, bound []*Term, body *Term, pats [][]*Term) *Term {
	if body.Kind == KBool || len(bound) == 0 {
		return body
	}
	return intern(&Term{Kind: KQuant, Op: q, Bound: bound, Args: []*Term{body}, Sort: SBool, Pats: pats})
}

// String ops
func StrLen(s *Term) *Term {
	if s.Kind == KStr {
		return mkInt(int64(len(s.Str)))
	}
	return mkApp("str.len", SInt, s)
}
func StrCat(a, b *Term) *Term {
	if a.Kind == KStr && b.Kind == KStr {
		return mkStr(a.Str + b.Str)
	}
	if a.Kind == KStr && a.Str == "" {
		return b
	}
	if b.Kind == KStr && b.Str == "" {
		return a
	}
	return mkApp("str.++", SString, a, b)
}
func StrSubstr(s, off, n *Term) *Term { return mkApp("str.substr", SString, s, off, n) }
func StrPrefixOf(p, s *Term) *Term  { return mkApp("str.prefixof", SBool, p, s) }
func StrSuffixOf(p, s *Term) *Term  { return mkApp("str.suffixof", SBool, p, s) }
func StrContains(s, sub *Term) *Term { return mkApp("str.contains", SBool, s, sub) }
func StrAt(s, i *Term) *Term         { return mkApp("str.at", SString, s, i) }

// ---- substitution ----

// subst replaces free occurrences (by key) of variables.
func subst(t *Term, m map[string]*Term) *Term {
	if len(m) == 0 {
		return t
	}
	return substRec(t, m, map[*Term]*Term{})
}

func substRec(t *Term, m map[string]*Term, memo map[*Term]*Term) *Term {
	if r, ok := memo[t]; ok {
		return r
	}
	var r *Term
	switch t.Kind {
	case KVar, KBVar:
		if x, ok := m[t.Op]; ok {
			r = x
		} else {
			r = t
		}
	case KInt, KBool, KStr:
		r = t
	case KQuant:
		// bound variables shadow
		m2 := m
		for _, b := range t.Bound {
			if _, ok := m[b.Op]; ok {
				m2 = map[string]*Term{}
				for k, v := range m {
					m2[k] = v
				}
				for _, b2 := range t.Bound {
					delete(m2, b2.Op)
				}
				break
			}
		}
		body := substRec(t.Args[0], m2, map[*Term]*Term{})
		var pats [][]*Term
		for _, p := range t.Pats {
			var pp []*Term
			for _, x := range p {
				pp = append(pp, substRec(x, m2, map[*Term]*Term{}))
			}
			pats = append(pats, pp)
		}
		r = quant(t.Op, t.Bound, body, pats)
	default:
		changed := false
		args := make([]*Term, len(t.Args))
		for i, a := range t.Args {
			args[i] = substRec(a, m, memo)
			if args[i] != a {
				changed = true
			}
		}
		if !changed {
			r = t
		} else {
			r = rebuild(t, args)
		}
	}
	memo[t] = r
	return r
}

// rebuild re-applies the simplifying constructor for t.Op on new args.
func rebuild(t *Term, args []*Term) *Term {
	if t.Kind == KUF {
		return intern(&Term{Kind: KUF, Op: t.Op, Args: args, Sort: t.Sort})
	}
	switch t.Op {
	case "and":
		return And(args...)
	case "or":
		return Or(args...)
	case "not":
		return Not(args[0])
	case "=>":
		return Implies(args[0], args[1])
	case "ite":
		return Ite(args[0], args[1], args[2])
	case "=":
		return Eq(args[0], args[1])
	case "<", "<=", ">", ">=":
		return cmp(t.Op, args[0], args[1])
	case "+":
		if len(args) == 2 {
			return Add(args[0], args[1])
		}
	case "-":
		if len(args) == 2 {
			return Sub(args[0], args[1])
		}
	case "*":
		if len(args) == 2 {
			return Mul(args[0], args[1])
		}
	case "select":
		return Select(args[0], args[1])
	case "store":
		return Store(args[0], args[1], args[2])
	}
	return intern(&Term{Kind: KApp, Op: t.Op, Args: args, Sort: t.Sort})
}

// ---- printing ----

func smtSym(n string) string {
	simple := true
	for _, c := range n {
		if !(c >= 'a' && c <= 'z' || c >= 'A' && c <= 'Z' || c >= '0' && c <= '9' || strings.ContainsRune("_.$!@%^&*-+<>=/?~", c)) {
			simple = false
			break
		}
	}
	if simple && n != "" && !(n[0] >= '0' && n[0] <= '9') {
		return n
	}
	return "|" + strings.NewReplacer("|", "!", "\\", "/").Replace(n) + "|"
}

func smtStrLit(s string) string {
	var b strings.Builder
	b.WriteByte('"')
	for i := 0; i < len(s); i++ {
		c := s[i]
		switch {
		case c == '"':
			b.WriteString(`""`)
		case c >= 32 && c < 127 && c != '\\':
			b.WriteByte(c)
		default:
			fmt.Fprintf(&b, "\\u{%x}", c)
		}
	}
	b.WriteByte('"')
	return b.String()
}

func (t *Term) smt() string {
	var b strings.Builder
	t.write(&b)
	return b.String()
}

func (t *Term) String() string { return t.smt() }

func (t *Term) write(b *strings.Builder) {
	switch t.Kind {
	case KInt:
		if t.Int.Sign() < 0 {
			b.WriteString("(- ")
			b.WriteString(new(big.Int).Neg(t.Int).String())
			b.WriteString(")")
		} else {
			b.WriteString(t.Int.String())
		}
	case KBool:
		b.WriteString(t.Op)
	case KStr:
		b.WriteString(smtStrLit(t.Str))
	case KVar, KBVar:
		b.WriteString(smtSym(t.Op))
	case KQuant:
		b.WriteString("(" + t.Op + " (")
		for i, v := range t.Bound {
			if i > 0 {
				b.WriteByte(' ')
			}
			b.WriteString("(" + smtSym(v.Op) + " " + v.Sort.String() + ")")
		}
		b.WriteString(") ")
		if len(t.Pats) > 0 {
			b.WriteString("(! ")
		}
		t.Args[0].write(b)
		if len(t.Pats) > 0 {
			for _, p := range t.Pats {
				b.WriteString(" :pattern (")
				for i, x := range p {
					if i > 0 {
						b.WriteByte(' ')
					}
					x.write(b)
				}
				b.WriteString(")")
			}
			b.WriteString(")")
		}
		b.WriteString(")")
	default:
		if t.Op == "const-array" {
			b.WriteString("((as const " + t.Sort.String() + ") ")
			t.Args[0].write(b)
			b.WriteString(")")
			return
		}
		if len(t.Args) == 0 {
			b.WriteString(smtSym(t.Op))
			return
		}
		b.WriteByte('(')
		if t.Kind == KUF {
			b.WriteString(smtSym(t.Op))
		} else {
			b.WriteString(t.Op)
		}
		for _, a := range t.Args {
			b.WriteByte(' ')
			a.write(b)
		}
		b.WriteByte(')')
	}
}

// collectDecls gathers free variables, UFs and uninterpreted sorts of the terms.
func collectDecls(ts []*Term) (vars map[string]*Sort, ufs map[string]ufSig, sorts map[string]bool) {
	vars = map[string]*Sort{}
	ufs = map[string]ufSig{}
	sorts = map[string]bool{}
	seen := map[*Term]bool{}
	var addSort func(s *Sort)
	addSort = func(s *Sort) {
		if s.Name == "Array" {
			addSort(s.K)
			addSort(s.V)
			return
		}
		if s.Name != "Int" && s.Name != "Bool" && s.Name != "String" {
			sorts[s.Name] = true
		}
	}
	var walk func(t *Term)
	walk = func(t *Term) {
		if seen[t] {
			return
		}
		seen[t] = true
		addSort(t.Sort)
		switch t.Kind {
		case KVar:
			vars[t.Op] = t.Sort
		case KUF:
			ufs[t.Op] = ufSigs[t.Op]
			for _, s := range ufSigs[t.Op].Args {
				addSort(s)
			}
		case KQuant:
			for _, v := range t.Bound {
				addSort(v.Sort)
			}
			for _, p := range t.Pats {
				for _, x := range p {
					walk(x)
				}
			}
		}
		for _, a := range t.Args {
			walk(a)
		}
	}
	for _, t := range ts {
		walk(t)
	}
	return
}

func sortedKeys[V any](m map[string]V) []string {
	ks := make([]string, 0, len(m))
	for k := range m {
		ks = append(ks, k)
	}
	sort.Strings(ks)
	return ks
}

// termSize counts nodes (DAG-unaware upper bound capped).
func termSize(t *Term) int {
	n := 1
	for _, a := range t.Args {
		n += termSize(a)
		if n > 1_000_000 {
			return n
		}
	}
	return n
}

// conjuncts splits a term on top-level "and".
func conjuncts(t *Term) []*Term {
	if t.Kind == KApp && t.Op == "and" {
		var out []*Term
		for _, a := range t.Args {
			out = append(out, conjuncts(a)...)
		}
		return out
	}
	return []*Term{t}
}

// hasQuant reports whether t contains a quantifier.
func hasQuant(t *Term) bool {
	if t.Kind == KQuant {
		return true
	}
	for _, a := range t.Args {
		if hasQuant(a) {
			return true
		}
	}
	return false
}

func usesStrings(t *Term) bool {
	if t.Sort == SString || t.Sort.Name == "String" {
		return true
	}
	for _, a := range t.Args {
		if usesStrings(a) {
			return true
		}
	}
	return false
}

// ---- division with explicit quotient / remainder variables ----

// divFacts returns (q, r, facts) for Go's truncated a / b, a % b using fresh-but-memoised
// quotient and remainder constants. Facts are definitional (sound for every a, b with b != 0).
func divFacts(a, b *Term, known func(*Term) bool) (q, r *Term, facts []*Term) {
	if a.Kind == KInt && b.Kind == KInt && b.Int.Sign() != 0 {
		return mkBig(new(big.Int).Quo(a.Int, b.Int)), mkBig(new(big.Int).Rem(a.Int, b.Int)), nil
	}
	if len(a.open) > 0 || len(b.open) > 0 {
		if b.Kind != KInt {
			// a quotient by a non-constant divisor under a binder: the same uninterpreted go.quo the code side
			// uses, so that an instance of a quantified invariant and the code's own quotient are one term
			// (a term with bound variables cannot carry facts; the closed instance gets them where it is built)
			return mkUF("go.quo", SInt, a, b), mkUF("go.rem", SInt, a, b), nil
		}
		return GoDiv(a, b), GoMod(a, b), nil
	}
	if b.Kind == KInt && b.Int.Sign() > 0 {
		// linear: SMT div/mod by a positive constant (euclidean == floor); fix up for negative a
		return GoDiv(a, b), GoMod(a, b), nil
	}
	// uninterpreted functions of (a, b): equal operands give equal quotients by congruence
	q = mkUF("go.quo", SInt, a, b)
	r = mkUF("go.rem", SInt, a, b)
	z := mkInt(0)
	if known != nil && known(Gt(b, z)) {
		facts = []*Term{
			Eq(a, Add(Mul(b, q), r)),
			Implies(Ge(a, z), And(Le(z, r), Lt(r, b), Ge(q, z), Le(q, a))),
			Implies(Lt(a, z), And(Lt(Neg(b), r), Le(r, z), Le(q, z))),
		}
		return
	}
	facts = []*Term{
		Implies(Neq(b, z), Eq(a, Add(Mul(b, q), r))),
		Implies(And(Ge(a, z), Gt(b, z)), And(Le(z, r), Lt(r, b), Ge(q, z), Le(q, a))),
		Implies(And(Ge(a, z), Lt(b, z)), And(Le(z, r), Lt(r, Neg(b)), Le(q, z))),
		Implies(And(Lt(a, z), Gt(b, z)), And(Lt(Neg(b), r), Le(r, z), Le(q, z))),
		Implies(And(Lt(a, z), Lt(b, z)), And(Lt(b, r), Le(r, z), Ge(q, z))),
	}
	return
}
