#!/usr/bin/env python3
"""Regenerates the generated regions of DESIGN.md (per-property section, seeded-change table, not-applicable list)
from claims.json, props/, evidence/, seeded/*/meta.json, selftest/mutants and known_findings.json."""
import json, os, glob, re
V = os.path.dirname(os.path.abspath(__file__))
J = lambda p: json.load(open(os.path.join(V, p)))
props = {}
for l in open(os.path.join(V, 'properties.jsonl')):
    p = json.loads(l); props[p['id']] = p
claims = J('claims.json')
known = J('known_findings.json')['findings']

def wrap(s, width=98, indent=''):
    out, line = [], indent
    for w in s.split():
        if len(line) + len(w) + 1 > width and line.strip():
            out.append(line.rstrip()); line = indent
        line += w + ' '
    if line.strip(): out.append(line.rstrip())
    return '\n'.join(out)

sec = []
for pid in sorted(props):
    c = claims.get(pid, {})
    sec.append('### %s — %s\n' % (pid, props[pid]['title']))
    if not c.get('claim'):
        sec.append('Not claimed: see section 5.\n')
        continue
    sec.append(wrap('**Claim.** ' + c['text']) + '\n')
    sec.append(wrap('**Unchecked.** ' + c['note']) + '\n')
    pj = J('props/%s.json' % pid)
    try:
        ev = J('evidence/%s.json' % pid)
    except Exception:
        ev = None
    if ev:
        cov = ev['coverage']
        fl = ['`%s` (%d)' % (f['name'] + ('$closure' if False else ''), f['obligations']) for f in cov['functions_under_contract']]
        sec.append(wrap('**Functions under contract (obligations)** — last run on the unchanged tree: %d/%d obligations discharged, %d vacuity/cover checks, back ends %s, solver time %.1f s: ' % (
            cov['discharged'], cov['obligations'], cov['vacuity_checks'], ', '.join('%s %d' % kv for kv in sorted(cov['by_backend'].items())), cov['solver_time_s']) + ', '.join(fl) + '.') + '\n')
        tb = [t for t in cov['trusted_base'] if 'trusted contract' in t]
        if tb:
            sec.append(wrap('**Trusted contracts (functions of /repo) and library models used:** ' + '; '.join(sorted(set(t.replace(' (trusted contract)', '').replace('github.com/megaease/easegress/pkg/', '') for t in tb))) + '.') + '\n')
        if cov.get('inlined_callees'):
            sec.append(wrap('**Inlined (verified as part of their callers):** ' + ', '.join(sorted(x.replace('github.com/megaease/easegress/pkg/', '') for x in cov['inlined_callees'])) + '.') + '\n')
        if cov.get('bounded_checks'):
            for b in cov['bounded_checks']:
                sec.append(wrap('**Bounded stand-in (not counted as proved):** %s' % json.dumps(b)) + '\n')
    kf = [k for k in known if k['property'] == pid]
    if kf:
        sec.append('**Findings:** ' + '; '.join('%s `%s`%s' % (k['status'], k['obligation'], (' (' + k['commit'] + ')') if k.get('commit') else '') for k in kf) + '.\n')
    muts = sorted(os.path.basename(f)[:-6] for f in glob.glob(os.path.join(V, 'selftest/mutants/%s/*.patch' % pid)))
    if muts:
        sec.append(wrap('**Must-fail corpus (%d):** ' % len(muts) + ', '.join(muts) + '.') + '\n')

seeds = ['| seed | property | what the change does (sub-agent notes, first line) | caught by |', '|---|---|---|---|']
for d in sorted(glob.glob(os.path.join(V, 'seeded/C*/'))):
    m = json.load(open(d + 'meta.json'))
    first = ''
    try:
        for l in open(d + 'notes.md'):
            l = l.strip()
            if l and not l.startswith('#'):
                first = l; break
    except Exception:
        pass
    det = m.get('detected_by')
    if det:
        det = re.sub(r'github.com/megaease/easegress/pkg/', '', det)
        parts = re.findall(r'(C\d\d):\[([^\]]*)\]', det)
        det = '; '.join('%s: `%s`' % (p, o.split(';')[0]) for p, o in parts)
    else:
        det = '**not caught** (property not claimed)' if not claims.get(m['property'], {}).get('claim') else '**MISSED**'
    seeds.append('| %s | %s | %s | %s |' % (m['seed'], m['property'], first[:160].replace('|', '/'), det))

na = []
for pid in sorted(props):
    c = claims.get(pid, {})
    if not c.get('claim'):
        na.append('### %s — %s\n\n%s\n' % (pid, props[pid]['title'], wrap(c.get('reason', 'no contract within reach of the engine yet'))))

s = open(os.path.join(V, 'DESIGN.md')).read()
def put(tag, body):
    global s
    a, b = '<!-- GENERATED:%s BEGIN -->' % tag, '<!-- GENERATED:%s END -->' % tag
    i, j = s.index(a) + len(a), s.index(b)
    s = s[:i] + '\n' + body + '\n' + s[j:]
put('PROPERTIES', '\n'.join(sec))
put('SEEDS', '\n'.join(seeds))
put('NA', '\n'.join(na) if na else 'None: all twenty properties are claimed. Ten of them are claimed for a kernel only; the clauses that this family cannot decide here (liveness, socket-level behaviour, cryptography, etcd, the Go scheduler) are listed per property in section 3 under **Unchecked** and in each check\'s `level_note`.')
open(os.path.join(V, 'DESIGN.md'), 'w').write(s)
print('DESIGN.md regenerated: %d properties, %d seeds, %d not applicable' % (len(props), len(seeds) - 2, len(na)))
