// replay-pkg: pkg/filters/responseadaptor
package responseadaptor

import (
	"net/http"
	"strconv"
	"strings"
	"testing"

	"github.com/megaease/easegress/pkg/context"
	"github.com/megaease/easegress/pkg/protocols/httpprot"
)

// A backend response with `Content-Length: 100` passes a ResponseAdaptor configured with `body: x`.
// The adaptor replaces the payload but leaves the backend's Content-Length, so the response handed
// on declares 100 bytes and carries 1: it is not well-framed.
func TestFindingBodyReplacedButContentLengthKept(t *testing.T) {
	ra := &ResponseAdaptor{spec: &Spec{Body: "x"}}
	ra.Init()
	stdr := &http.Response{StatusCode: 200, Header: http.Header{}, Body: http.NoBody}
	resp, _ := httpprot.NewResponse(stdr)
	resp.SetPayload([]byte(strings.Repeat("a", 100)))
	resp.HTTPHeader().Set("Content-Length", "100")
	ctx := context.New(nil)
	ctx.SetInputResponse(resp)
	if res := ra.Handle(ctx); res != "" {
		t.Fatalf("unexpected result %q", res)
	}
	if cl := resp.HTTPHeader().Get("Content-Length"); cl != "" {
		n, _ := strconv.Atoi(cl)
		if int64(n) != resp.PayloadSize() {
			t.Fatalf("declared Content-Length %s but the body has %d bytes", cl, resp.PayloadSize())
		}
	}
}
