// replay-pkg: pkg/filters/ratelimiter
package ratelimiter

import (
	"net/http"
	"testing"

	"github.com/megaease/easegress/pkg/context"
	"github.com/megaease/easegress/pkg/filters"
	"github.com/megaease/easegress/pkg/logger"
	"github.com/megaease/easegress/pkg/protocols/httpprot"
	"github.com/megaease/easegress/pkg/util/yamltool"
)

// Hot update of a pipeline: the new RateLimiter generation inherits from the old one while a request
// that already holds the old generation is still to be handled by it. reload() hands the limiter of
// an unchanged URL rule to the new generation and sets the OLD generation's pointer to nil, so the
// request still running on the old generation dereferences a nil limiter.
func TestFindingInheritBreaksOldGeneration(t *testing.T) {
	logger.InitNop()
	const y = `
name: rl
kind: RateLimiter
policies:
- name: p
  timeoutDuration: 100ms
  limitRefreshPeriod: 10ms
  limitForPeriod: 50
defaultPolicyRef: p
urls:
- methods: [GET]
  url:
    prefix: /
`
	mk := func() filters.Filter {
		raw := map[string]interface{}{}
		yamltool.Unmarshal([]byte(y), &raw)
		spec, err := filters.NewSpec(nil, "", raw)
		if err != nil {
			t.Fatal(err)
		}
		return kind.CreateInstance(spec)
	}
	old := mk()
	old.Init()
	newGen := mk()
	newGen.Inherit(old) // the update; Pipeline.Inherit closes the old generation only afterwards

	stdr, _ := http.NewRequest(http.MethodGet, "http://example.com/a", nil)
	req, _ := httpprot.NewRequest(stdr)
	ctx := context.New(nil)
	ctx.SetInputRequest(req)
	defer func() {
		if r := recover(); r != nil {
			t.Fatalf("a request still handled by the old generation PANICS after the update: %v", r)
		}
	}()
	old.Handle(ctx)
}
