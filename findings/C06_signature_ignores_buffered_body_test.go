// replay-pkg: pkg/filters/validator
//
// Replay for property C06: the API signature must cover the body that will actually be forwarded.
// The HTTP server buffers the body with Request.FetchPayload before the pipeline runs, so the
// std request's Body is already drained when Validator.Handle calls Signer.Verify.
package validator

import (
	"net/http"
	"strings"
	"testing"
	"time"

	"github.com/megaease/easegress/pkg/context"
	"github.com/megaease/easegress/pkg/protocols/httpprot"
	"github.com/megaease/easegress/pkg/util/signer"
)

const c06Spec = `
kind: Validator
name: validator
signature:
  accessKeys:
    AKID: SECRET
`

// the request as the HTTP server hands it to the pipeline: NewRequest + FetchPayload
func c06Serve(t *testing.T, v *Validator, stdr *http.Request) string {
	req, err := httpprot.NewRequest(stdr)
	if err != nil {
		t.Fatal(err)
	}
	if err := req.FetchPayload(0); err != nil {
		t.Fatal(err)
	}
	ctx := context.New(nil)
	ctx.SetInputRequest(req)
	return v.Handle(ctx)
}

func c06Signed(t *testing.T, body string) *http.Request {
	stdr, _ := http.NewRequest(http.MethodPost, "http://example.com/orders", strings.NewReader(body))
	s := signer.New().SetCredential("AKID", "SECRET")
	if err := s.NewContext(time.Now()).Sign(stdr); err != nil {
		t.Fatal(err)
	}
	return stdr
}

// completeness: a correctly signed request with a body is accepted
func TestC06SignedBodyIsAccepted(t *testing.T) {
	v := createValidator(c06Spec, nil, nil)
	if r := c06Serve(t, v, c06Signed(t, `{"amount": 1}`)); r != "" {
		t.Errorf("correctly signed request with a body: result %q, want accepted", r)
	}
}

// soundness: changing the body of an accepted request makes it rejected
func TestC06TamperedBodyIsRejected(t *testing.T) {
	v := createValidator(c06Spec, nil, nil)
	stdr := c06Signed(t, "")
	// same signature, different body
	stdr.Body = http.NoBody
	tampered, _ := http.NewRequest(http.MethodPost, "http://example.com/orders", strings.NewReader(`{"amount": 1000000}`))
	tampered.Header = stdr.Header.Clone()
	if r := c06Serve(t, v, tampered); r != resultInvalid {
		t.Errorf("request whose body was replaced after signing: result %q, want %q", r, resultInvalid)
	}
}
