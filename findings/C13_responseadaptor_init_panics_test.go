// replay-pkg: pkg/filters/responseadaptor
package responseadaptor

import (
	"testing"

	"github.com/megaease/easegress/pkg/filters"
	"github.com/megaease/easegress/pkg/logger"
	"github.com/megaease/easegress/pkg/util/yamltool"
)

// Specs that cannot work ("compress: deflate", compress together with decompress, body together with
// decompress) pass validation (filters.NewSpec) and are only discovered by a panic in Init.
func TestFindingResponseAdaptorInitPanics(t *testing.T) {
	logger.InitNop()
	for _, extra := range []string{"compress: deflate", "decompress: lz4", "compress: gzip\ndecompress: gzip", "body: x\ndecompress: gzip"} {
		raw := map[string]interface{}{}
		yamltool.Unmarshal([]byte("name: a\nkind: ResponseAdaptor\n"+extra+"\n"), &raw)
		spec, err := filters.NewSpec(nil, "", raw)
		if err != nil {
			continue // rejected at validation time: fine
		}
		func() {
			defer func() {
				if r := recover(); r != nil {
					t.Errorf("%q: accepted by validation, but Init PANICS: %v", extra, r)
				}
			}()
			kind.CreateInstance(spec).Init()
		}()
	}
}
