// replay-pkg: pkg/filters/proxy
package proxy

import "testing"

// A validated pool whose servers all have weight 0 with loadBalance.policy weightedRandom.
func TestFindingWeightedZero(t *testing.T) {
	spec := &ServerPoolSpec{Servers: []*Server{{URL: "http://127.0.0.1:1"}, {URL: "http://127.0.0.1:2"}}, LoadBalance: &LoadBalanceSpec{Policy: "weightedRandom"}}
	if err := spec.Validate(); err != nil {
		t.Skip("validation rejects", err)
	}
	defer func() {
		if r := recover(); r != nil {
			t.Fatalf("PANIC for a validated pool: %v", r)
		}
	}()
	lb := NewLoadBalancer(spec.LoadBalance, spec.Servers)
	if lb.ChooseServer(nil) == nil {
		t.Fatalf("no server chosen from a non-empty pool")
	}
}
