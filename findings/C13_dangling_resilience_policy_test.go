// replay-pkg: pkg/filters/proxy
package proxy

import (
	"testing"

	"github.com/megaease/easegress/pkg/logger"
	_ "github.com/megaease/easegress/pkg/object/pipeline"
	"github.com/megaease/easegress/pkg/resilience"
	"github.com/megaease/easegress/pkg/supervisor"
)

// A Pipeline whose Proxy pool names a retry policy that the pipeline does not define passes
// validation (supervisor.NewSpec -> Pipeline Spec.Validate checks filters and resilience policies
// separately), and is discovered only by a panic in ServerPool.InjectResiliencePolicy when the
// pipeline is started.
func TestFindingDanglingResiliencePolicy(t *testing.T) {
	logger.InitNop()
	const y = `
name: p
kind: Pipeline
filters:
- name: proxy
  kind: Proxy
  pools:
  - servers:
    - url: http://127.0.0.1:9095
    retryPolicy: nope
`
	if _, err := supervisor.NewSpec(y); err != nil {
		t.Logf("rejected at validation time (fine): %v", err)
		return
	}
	sp := NewServerPool(&Proxy{}, &ServerPoolSpec{Servers: []*Server{{URL: "http://127.0.0.1:9095"}}, RetryPolicy: "nope"}, "pool")
	defer func() {
		if r := recover(); r != nil {
			t.Fatalf("validation accepted the pipeline, but starting it PANICS: %v", r)
		}
	}()
	sp.InjectResiliencePolicy(map[string]resilience.Policy{}) // what Pipeline.reload does with the (empty) resilience section
}
