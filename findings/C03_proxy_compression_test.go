// replay-pkg: pkg/filters/proxy
package proxy

// Replay for two findings of property C03 (fixed in /repo):
//  1. a Proxy with `compression` whose response is handled in stream mode (serverMaxBodySize: -1) panicked in
//     ServerPool.collectMetrics: buildResponse wrapped the backend body in a CallbackReader, compress() then replaced
//     stdResp.Body by a GZipCompressReader around it, and collectMetrics type-asserts stdResp.Body back to
//     *CallbackReader (nil) and calls a method on it.
//  2. compress() removed the Content-Length header but kept http.Response.ContentLength, so Response.FetchPayload
//     tried to read the uncompressed length from the (shorter) gzip stream: ErrUnexpectedEOF, result internalError.

import (
	"bytes"
	"compress/gzip"
	"fmt"
	"io"
	"strconv"
	"net/http"
	"strings"
	"testing"

	"github.com/megaease/easegress/pkg/protocols/httpprot"
	"github.com/megaease/easegress/pkg/resilience"
	"github.com/stretchr/testify/assert"
)

func TestC03CompressionInStreamMode(t *testing.T) { c03Compression(t, -1, false) }

// a backend response that declares its length (the usual case), buffered mode
func TestC03CompressionOfLengthDeclaredResponse(t *testing.T) { c03Compression(t, 0, true) }

func c03Compression(t *testing.T, maxBodySize int, declared bool) {
	saved := fnSendRequest
	defer func() { fnSendRequest = saved }()
	want := strings.Repeat("the backend's body. ", 100)
	fnSendRequest = func(r *http.Request, client *http.Client) (*http.Response, error) {
		resp := &http.Response{
			StatusCode:    200,
			Header:        http.Header{"Content-Type": []string{"text/plain"}},
			ContentLength: -1,
			Body:          io.NopCloser(strings.NewReader(want)),
		}
		if declared {
			resp.ContentLength = int64(len(want))
			resp.Header.Set("Content-Length", strconv.Itoa(len(want)))
		}
		return resp, nil
	}
	px := newTestProxy(fmt.Sprintf(`
name: proxy
kind: Proxy
serverMaxBodySize: %d
compression:
  minLength: 0
pools:
- servers:
  - url: http://192.168.1.1:8080
`, maxBodySize), assert.New(t))
	px.InjectResiliencePolicy(make(map[string]resilience.Policy))

	stdr, _ := http.NewRequest(http.MethodGet, "http://gateway.test/data", nil)
	stdr.Header.Set("Accept-Encoding", "gzip")
	ctx := getCtx(stdr)
	ctx.GetInputRequest().(*httpprot.Request).FetchPayload(0)

	var res string
	func() {
		defer func() {
			if r := recover(); r != nil {
				t.Fatalf("Proxy.Handle panicked: %v", r)
			}
		}()
		res = px.Handle(ctx)
	}()
	if res != "" {
		t.Fatalf("result %q", res)
	}
	resp := ctx.GetOutputResponse().(*httpprot.Response)
	if resp.StatusCode() != 200 || resp.HTTPHeader().Get("Content-Encoding") != "gzip" {
		t.Fatalf("status %d, Content-Encoding %q", resp.StatusCode(), resp.HTTPHeader().Get("Content-Encoding"))
	}
	raw, err := io.ReadAll(resp.GetPayload())
	if err != nil {
		t.Fatalf("reading the body: %v", err)
	}
	zr, err := gzip.NewReader(bytes.NewReader(raw))
	if err != nil {
		t.Fatalf("gzip: %v", err)
	}
	got, err := io.ReadAll(zr)
	if err != nil || string(got) != want {
		t.Fatalf("body does not inflate to the backend's bytes: err=%v len=%d", err, len(got))
	}
	resp.Close()
}
