// replay-pkg: pkg/filters/validator
//
// Replay for property C13 (a validated filter handles any request without panicking): a request line
// whose target is "scheme:opaque" (e.g. "GET a:b?... HTTP/1.1") reaches the pipeline with URL.Opaque
// set; the signature validator's buildCanonicalURI slices strings.Split(opaque, "/")[3:] and panics
// when the opaque part has fewer than three slashes.
package validator

import (
	"bufio"
	"net/http"
	"strings"
	"testing"
	"time"

	"github.com/megaease/easegress/pkg/context"
	"github.com/megaease/easegress/pkg/protocols/httpprot"
	"github.com/megaease/easegress/pkg/util/signer"
)

func TestC13SignatureValidatorOpaqueURLDoesNotPanic(t *testing.T) {
	v := createValidator("\nkind: Validator\nname: validator\nsignature:\n  accessKeys:\n    AKID: SECRET\n", nil, nil)

	// sign an ordinary request to obtain well-formed signature headers for a known access key id
	signed, _ := http.NewRequest(http.MethodGet, "http://example.com/x", nil)
	if err := signer.New().SetCredential("AKID", "SECRET").NewContext(time.Now()).Sign(signed); err != nil {
		t.Fatal(err)
	}

	// the request as net/http's server parses it from the wire
	raw := "GET a:b HTTP/1.1\r\nHost: example.com\r\n"
	for k, vs := range signed.Header {
		raw += k + ": " + vs[0] + "\r\n"
	}
	raw += "\r\n"
	stdr, err := http.ReadRequest(bufio.NewReader(strings.NewReader(raw)))
	if err != nil {
		t.Fatalf("net/http refuses the request line: %v", err)
	}
	if stdr.URL.Opaque == "" {
		t.Skip("no opaque URL produced")
	}

	req, _ := httpprot.NewRequest(stdr)
	req.FetchPayload(0)
	ctx := context.New(nil)
	ctx.SetInputRequest(req)

	defer func() {
		if r := recover(); r != nil {
			t.Errorf("Validator.Handle panicked on request target %q: %v", "a:b", r)
		}
	}()
	if res := v.Handle(ctx); res != resultInvalid {
		t.Errorf("result %q, want %q", res, resultInvalid)
	}
}
