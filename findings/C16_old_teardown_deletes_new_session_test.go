// replay-pkg: pkg/object/mqttproxy
package mqttproxy

import (
	"testing"

	"github.com/eclipse/paho.mqtt.golang/packets"
)

// Client-id takeover: connection c1 of client "x" is superseded by connection c2 (cleanSession=false,
// subscribed to "t"). When the teardown of the superseded c1 runs (its read loop notices the dead
// socket at some later time), Client.closeAndDelSession removes the session registered for "x" from
// the session manager and unsubscribes "x" from the topic manager - but both now belong to c2.
func TestFindingOldTeardownDeletesNewSession(t *testing.T) {
	b := &Broker{clients: map[string]*Client{}, topicMgr: newTopicManager(100), pipelines: map[PacketType]string{}}
	b.sessMgr = newSessionManager(b, newStorage(nil))
	defer b.sessMgr.close()
	mk := func(clean bool) *Client {
		connect := packets.NewControlPacket(packets.Connect).(*packets.ConnectPacket)
		connect.ClientIdentifier = "x"
		connect.CleanSession = clean
		c := &Client{broker: b, writeCh: make(chan packets.ControlPacket, 8), done: make(chan struct{})}
		c.info.cid = "x"
		b.Lock()
		b.clients["x"] = c // what handleConn does for a (takeover) connection
		b.setSession(c, connect)
		b.Unlock()
		return c
	}
	c1 := mk(true)
	c2 := mk(false) // takes the id over; c1's session was clean, so c2 gets a new session
	if c2.session == c1.session {
		t.Fatal("setup: expected a new session for the takeover connection")
	}
	c2.session.subscribe([]string{"t"}, []byte{1})
	b.topicMgr.subscribe([]string{"t"}, []byte{1}, "x")

	c1.closeAndDelSession() // teardown of the superseded connection, whenever it happens

	if got := b.sessMgr.get("x"); got != c2.session {
		t.Errorf("the new connection's session is no longer registered: sessMgr.get(\"x\") = %v, want c2's session", got)
	}
	if subs, _ := b.topicMgr.findSubscribers("t"); len(subs) != 1 {
		t.Errorf("the new connection's subscription to \"t\" was removed: subscribers = %v", subs)
	}
	if b.getClient("x") != c2 {
		t.Errorf("the new connection is no longer registered in the broker")
	}
}
