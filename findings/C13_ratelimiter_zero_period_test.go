// replay-pkg: pkg/filters/ratelimiter
package ratelimiter

import (
	"net/http"
	"testing"

	"github.com/megaease/easegress/pkg/context"
	"github.com/megaease/easegress/pkg/filters"
	"github.com/megaease/easegress/pkg/logger"
	"github.com/megaease/easegress/pkg/protocols/httpprot"
	"github.com/megaease/easegress/pkg/util/yamltool"
)

// limitRefreshPeriod "0s" is a well-formed duration, so validation (filters.NewSpec) accepts the
// spec; the first request that matches the URL rule then divides by the zero period.
func TestFindingZeroRefreshPeriod(t *testing.T) {
	logger.InitNop()
	const y = `
name: rl
kind: RateLimiter
policies:
- name: p
  timeoutDuration: 100ms
  limitRefreshPeriod: 0s
  limitForPeriod: 5
defaultPolicyRef: p
urls:
- methods: [GET]
  url:
    prefix: /
`
	raw := map[string]interface{}{}
	yamltool.Unmarshal([]byte(y), &raw)
	spec, err := filters.NewSpec(nil, "", raw)
	if err != nil {
		t.Logf("rejected at validation time (fine): %v", err)
		return
	}
	defer func() {
		if r := recover(); r != nil {
			t.Fatalf("validation accepted the spec, but handling a request PANICS: %v", r)
		}
	}()
	f := kind.CreateInstance(spec)
	f.Init()
	stdr, _ := http.NewRequest(http.MethodGet, "http://example.com/a", nil)
	req, _ := httpprot.NewRequest(stdr)
	ctx := context.New(nil)
	ctx.SetInputRequest(req)
	f.Handle(ctx)
}
