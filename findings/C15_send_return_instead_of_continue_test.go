// replay-pkg: pkg/object/mqttproxy
package mqttproxy

import (
	"fmt"
	"testing"

	"github.com/eclipse/paho.mqtt.golang/packets"
)

// Two subscribers of topic "t": "low" with QoS 0 and "high" with QoS 1. A QoS 1 message must reach
// "high" whatever the iteration order of the subscriber map is. Broker.sendMsgToClient returns at the
// first subscriber whose QoS is lower than the message's, so when "low" is visited first "high"
// gets nothing. The map order is random per call: 200 rounds make both orders occur.
func TestFindingSendMsgReturnsAtLowQoSSubscriber(t *testing.T) {
	missed := 0
	for round := 0; round < 200; round++ {
		b := &Broker{clients: map[string]*Client{}, topicMgr: newTopicManager(100)}
		mk := func(id string) *Client {
			c := &Client{broker: b, writeCh: make(chan packets.ControlPacket, 8), done: make(chan struct{})}
			c.info.cid = id
			c.session = &Session{broker: b, info: &SessionInfo{ClientID: id}, pending: map[uint16]*Message{}}
			b.clients[id] = c
			return c
		}
		low, high := mk("low"), mk("high")
		// some filler subscribers so that the map has several buckets' worth of order variety
		for i := 0; i < 6; i++ {
			f := mk(fmt.Sprintf("f%d", i))
			b.topicMgr.subscribe([]string{"t"}, []byte{1}, f.info.cid)
		}
		b.topicMgr.subscribe([]string{"t"}, []byte{0}, low.info.cid)
		b.topicMgr.subscribe([]string{"t"}, []byte{1}, high.info.cid)
		b.sendMsgToClient(nil, "t", []byte("x"), 1)
		if len(high.writeCh) == 0 {
			missed++
		}
	}
	if missed > 0 {
		t.Fatalf("in %d of 200 rounds the QoS1 subscriber did not get the QoS1 message because a QoS0 subscriber was visited first", missed)
	}
}
