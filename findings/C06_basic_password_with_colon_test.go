// replay-pkg: pkg/filters/validator
//
// Replay for property C06: Basic credentials must equal a configured user's, for all passwords
// including ones that contain ':' (RFC 7617: only the user-id cannot contain a colon).
package validator

import (
	"encoding/base64"
	"os"
	"testing"
)

func c06BasicValidator(t *testing.T, user, password string) *Validator {
	userFile, err := os.CreateTemp("", "apache2-htpasswd")
	if err != nil {
		t.Fatal(err)
	}
	t.Cleanup(func() { os.Remove(userFile.Name()) })
	enc, err := bcryptHash([]byte(password))
	if err != nil {
		t.Fatal(err)
	}
	userFile.Write([]byte(user + ":" + enc + "\n"))
	userFile.Close()
	v := createValidator("\nkind: Validator\nname: validator\nbasicAuth:\n  mode: FILE\n  userFile: "+userFile.Name(), nil, nil)
	t.Cleanup(v.Close)
	return v
}

func c06BasicResult(v *Validator, user, password string) string {
	ctx, header := prepareCtxAndHeader()
	header.Set("Authorization", "Basic "+base64.StdEncoding.EncodeToString([]byte(user+":"+password)))
	return v.Handle(ctx)
}

// completeness: the configured user's own password is accepted even if it contains ':'
func TestC06PasswordWithColonIsAccepted(t *testing.T) {
	v := c06BasicValidator(t, "alice", "pa:ss")
	if r := c06BasicResult(v, "alice", "pa:ss"); r != "" {
		t.Errorf("configured password \"pa:ss\": result %q, want accepted", r)
	}
}

// soundness: a different password is rejected even if it agrees up to its first ':'
func TestC06OtherPasswordSharingThePrefixBeforeColonIsRejected(t *testing.T) {
	v := c06BasicValidator(t, "alice", "pa")
	if r := c06BasicResult(v, "alice", "pa:anything"); r != resultInvalid {
		t.Errorf("password \"pa:anything\" against configured \"pa\": result %q, want %q", r, resultInvalid)
	}
}
