// replay-pkg: pkg/object/httpserver
//
// Replays for property C12 (route cache transparency): twin mux instances built from the same
// rules, one with the cache off and one with it on, are fed the same request sequence through the
// real muxInstance.search. Each test fails on a tree where the cache changes a routing outcome.
package httpserver

import (
	"fmt"
	"net/http"
	"testing"

	"github.com/megaease/easegress/pkg/protocols/httpprot"
	"github.com/megaease/easegress/pkg/supervisor"
	"github.com/megaease/easegress/pkg/protocols/httpprot/httpstat"
)

func c12Twin(t *testing.T, rules string) (off, on *muxInstance) {
	mk := func(cache string) *muxInstance {
		m := newMux(&httpstat.HTTPStat{}, &httpstat.TopN{}, nil)
		spec, err := supervisor.NewSpec("kind: HTTPServer\nname: test\nport: 8080\nkeepAlive: true\nhttps: false\n" + cache + rules)
		if err != nil {
			t.Fatalf("spec: %v", err)
		}
		m.reload(spec, nil)
		return m.inst.Load().(*muxInstance)
	}
	return mk(""), mk("cacheSize: 10\n")
}

type c12Req struct {
	method, host, path, ip string
	header                 [2]string
}

func (q c12Req) build() *httpprot.Request {
	stdr, _ := http.NewRequest(q.method, "http://placeholder"+q.path, http.NoBody)
	stdr.Host = q.host
	stdr.URL.Path = q.path
	if q.ip != "" {
		stdr.Header.Set("X-Real-Ip", q.ip)
	}
	if q.header[0] != "" {
		stdr.Header.Set(q.header[0], q.header[1])
	}
	r, _ := httpprot.NewRequest(stdr)
	return r
}

func c12Outcome(r *route) string {
	if r.code != 0 {
		return fmt.Sprint(r.code)
	}
	return r.path.backend
}

func c12Compare(t *testing.T, rules string, seq []c12Req) {
	off, on := c12Twin(t, rules)
	for k, q := range seq {
		a, b := c12Outcome(off.search(q.build())), c12Outcome(on.search(q.build()))
		if a != b {
			t.Errorf("request #%d %+v: cache off -> %s, cache on -> %s", k, q, a, b)
		}
	}
}

// an unconditional entry is cached although an earlier header-conditioned entry matches the same key
func TestC12HeaderConditionedEntryIsShadowedByCachedRoute(t *testing.T) {
	c12Compare(t, `
rules:
- paths:
  - path: /a
    headers:
    - key: X-Canary
      values: ["yes"]
    backend: canary
  - path: /a
    backend: plain
`, []c12Req{
		{method: "GET", host: "h", path: "/a"},
		{method: "GET", host: "h", path: "/a", header: [2]string{"X-Canary", "yes"}},
	})
}

// a cached 404 is returned to a client that the server-level IP filter blocks (403 without cache)
func TestC12CachedNotFoundBypassesServerIPFilter(t *testing.T) {
	c12Compare(t, `
ipFilter:
  blockIPs: [9.9.9.9]
rules:
- paths:
  - path: /a
    backend: plain
`, []c12Req{
		{method: "GET", host: "h", path: "/nope", ip: "1.1.1.1"},
		{method: "GET", host: "h", path: "/nope", ip: "9.9.9.9"},
	})
}

// a cached route skips the IP filter of an earlier rule whose host matches too
func TestC12CachedRouteBypassesEarlierRuleIPFilter(t *testing.T) {
	c12Compare(t, `
rules:
- ipFilter:
    blockIPs: [9.9.9.9]
  paths:
  - path: /other
    backend: other
- paths:
  - path: /a
    backend: plain
`, []c12Req{
		{method: "GET", host: "h", path: "/a", ip: "1.1.1.1"},
		{method: "GET", host: "h", path: "/a", ip: "9.9.9.9"},
	})
}

// host+method+path concatenations coincide: a crafted request poisons the entry of a different one
func TestC12CollidingKeysShareACacheEntry(t *testing.T) {
	c12Compare(t, `
rules:
- host: example.com
  paths:
  - path: /a
    backend: plain
`, []c12Req{
		{method: "ET", host: "example.comG", path: "/a"},
		{method: "GET", host: "example.com", path: "/a"},
	})
}
