// replay-pkg: pkg/object/mqttproxy
package mqttproxy

import "testing"

// One client holds two overlapping subscriptions: "a/#" with QoS 1 and "a/b" with QoS 0. For topic "a/b" it holds
// a matching QoS 1 subscription, so a QoS 1 message must be delivered to it: findSubscribers has to report it
// with QoS 1 (Broker.sendMsgToClient skips a subscriber whose reported QoS is lower than the message's).
// topicNode.addClients overwrote the QoS recorded at the "#" node with the QoS of the node visited last, so the
// client was reported with QoS 0 (obligation mqttproxy.(*topicNode).addClients/inv[1].step, fixed by ae2a5b7).
func TestFindingC15OverlappingSubscriptionsMaxQoS(t *testing.T) {
	mgr := newTopicManager(100)
	if err := mgr.subscribe([]string{"a/#", "a/b"}, []byte{1, 0}, "c1"); err != nil {
		t.Fatal(err)
	}
	got, err := mgr.findSubscribers("a/b")
	if err != nil {
		t.Fatal(err)
	}
	if q, ok := got["c1"]; !ok || q != 1 {
		t.Fatalf("client c1 holds a matching QoS1 subscription (a/#) but is reported as %v (routed=%v)", q, ok)
	}
}
