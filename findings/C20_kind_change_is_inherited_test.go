// replay-pkg: pkg/supervisor
package supervisor

import (
	"fmt"
	"sort"
	"sync"
	"testing"
	"time"

	"github.com/megaease/easegress/pkg/cluster"
	"github.com/megaease/easegress/pkg/cluster/clustertest"
	"github.com/megaease/easegress/pkg/logger"
	"github.com/megaease/easegress/pkg/option"
)

// Two business-controller kinds. A snapshot in which the name "x" changes from kind A to kind B
// (e.g. delete + create seen as one snapshot by the syncer) must close the old object and
// initialise the new one; the registry delivers it as an *update*, so the new B object inherits
// from the old A object, the A object is never closed and the B object is never initialised.
type findC20A struct{ name string }
type findC20B struct{ name string }
type findC20Spec struct {
	Value string `yaml:"value"`
}

var (
	findC20Mu  sync.Mutex
	findC20Log []string
)

func findC20Rec(f string, a ...interface{}) {
	findC20Mu.Lock()
	defer findC20Mu.Unlock()
	findC20Log = append(findC20Log, fmt.Sprintf(f, a...))
}

func (c *findC20A) Category() ObjectCategory { return CategoryBusinessController }
func (c *findC20A) Kind() string             { return "FindC20KindA" }
func (c *findC20A) DefaultSpec() interface{} { return &findC20Spec{} }
func (c *findC20A) Status() *Status          { return &Status{} }
func (c *findC20A) Init(spec *Spec)          { c.name = spec.Name(); findC20Rec("A.init %s", c.name) }
func (c *findC20A) Inherit(spec *Spec, prev Object) {
	c.name = spec.Name()
	findC20Rec("A.inherit %s from %T", c.name, prev)
}
func (c *findC20A) Close() { findC20Rec("A.close %s", c.name) }

func (c *findC20B) Category() ObjectCategory { return CategoryBusinessController }
func (c *findC20B) Kind() string             { return "FindC20KindB" }
func (c *findC20B) DefaultSpec() interface{} { return &findC20Spec{} }
func (c *findC20B) Status() *Status          { return &Status{} }
func (c *findC20B) Init(spec *Spec)          { c.name = spec.Name(); findC20Rec("B.init %s", c.name) }
func (c *findC20B) Inherit(spec *Spec, prev Object) {
	c.name = spec.Name()
	findC20Rec("B.inherit %s from %T", c.name, prev)
}
func (c *findC20B) Close() { findC20Rec("B.close %s", c.name) }

func init() {
	Register(&findC20A{})
	Register(&findC20B{})
}

func TestFindingKindChangeIsInherited(t *testing.T) {
	logger.InitNop()
	cls := clustertest.NewMockedCluster()
	cls.MockedLayout = func() *cluster.Layout { return &cluster.Layout{} }
	cls.MockedSyncer = func(time.Duration) (cluster.Syncer, error) {
		syncer := clustertest.NewMockedSyncer()
		syncer.MockedSyncPrefix = func(string) (<-chan map[string]string, error) {
			return make(chan map[string]string), nil
		}
		return syncer, nil
	}
	s := &Supervisor{options: &option.Options{AbsHomeDir: t.TempDir()}, cls: cls, firstHandle: true,
		firstHandleDone: make(chan struct{}), done: make(chan struct{})}
	s.objectRegistry = newObjectRegistry(s, nil)
	t.Cleanup(s.objectRegistry.close)
	s.watcher = s.objectRegistry.NewWatcher(watcherName, FilterCategory(CategoryBusinessController))
	apply := func(config map[string]string) []string {
		s.objectRegistry.applyConfig(config)
		for {
			select {
			case ev := <-s.watcher.Watch():
				s.handleEvent(ev)
				continue
			default:
			}
			break
		}
		findC20Mu.Lock()
		defer findC20Mu.Unlock()
		l := findC20Log
		findC20Log = nil
		sort.Strings(l)
		return l
	}
	apply(map[string]string{})
	got := apply(map[string]string{"x": "name: x\nkind: FindC20KindA\nvalue: 1\n"})
	if fmt.Sprint(got) != "[A.init x]" {
		t.Fatalf("setup: %v", got)
	}
	got = apply(map[string]string{"x": "name: x\nkind: FindC20KindB\nvalue: 1\n"})
	want := "[A.close x B.init x]"
	if fmt.Sprint(got) != want {
		t.Fatalf("kind of x changed from A to B: want lifecycle calls %s, got %v", want, got)
	}
}
