// replay-pkg: pkg/object/httpserver
package httpserver

import (
	"net/http"
	"net/url"
	"testing"

	"github.com/megaease/easegress/pkg/protocols/httpprot"
)

// A catch-all path entry (no path, pathPrefix or pathRegexp) with a rewriteTarget: every request
// matches it, and MuxPath.rewrite then calls ReplaceAllString on the nil pathRE.
func TestFindingRewriteNilRegexp(t *testing.T) {
	mp := newMuxPath(nil, &Path{Backend: "b", RewriteTarget: "/new"})
	stdr := &http.Request{Method: "GET", URL: &url.URL{Path: "/any"}, Header: http.Header{}}
	req, _ := httpprot.NewRequest(stdr)
	if !mp.matchPath(req) {
		t.Skip("entry does not match")
	}
	defer func() {
		if r := recover(); r != nil {
			t.Fatalf("PANIC while rewriting the path of a matched request: %v", r)
		}
	}()
	mp.rewrite(req)
}
