module github.com/lucas-clemente/quic-go

go 1.17
