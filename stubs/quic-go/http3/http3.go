// Package http3 is a compile stub used only by replays of pkg/object/httpserver: quic-go v0.27.2
// refuses to compile with the installed Go, and the replays never start an HTTP/3 listener.
package http3

import "net/http"

type Server struct{ *http.Server }

func (s *Server) ListenAndServe() error { return nil }
func (s *Server) Close() error          { return nil }
